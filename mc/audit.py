"""Mutation audit (developer tool, not a registered check).

usage: python -m mc.audit <seeded dir> [--checks C09,C12] [--tier quick] [--no-tests] [--tree <worktree>] [--out <file>]

--tree runs everything against a scratch worktree of /repo (same commit) instead of /repo itself, so that several
audits can run side by side; the checks then get PYTHONPATH / HL7APY_REPO pointing at it.

Applies <dir>/patch.diff to /repo (which must be clean), runs the pinned test suite (the change
must keep all tests passing), the demonstration (must fail with the change), and the quick checks
of the named properties (default: meta.json "breaks"), then restores /repo and runs the
demonstration again (must pass).  Prints a JSON summary and stores it in <dir>/audit.json.
"""
from __future__ import annotations

import json
import os
import re
import subprocess
import sys
import time

REPO = '/repo'
TREE_ENV = {}
VERIF = os.path.dirname(os.path.dirname(os.path.abspath(__file__)))


def sh(cmd, cwd=None, timeout=3600, env=None):
    t = time.time()
    p = subprocess.run(cmd, shell=True, cwd=cwd, capture_output=True, text=True, timeout=timeout, env=env)
    return p.returncode, p.stdout + p.stderr, time.time() - t


def main():
    global REPO
    args = sys.argv[1:]
    d = os.path.abspath(args[0])
    checks = None
    tier = 'quick'
    tests = True
    outfile = None
    i = 1
    while i < len(args):
        if args[i] == '--checks':
            checks = args[i + 1].split(',')
            i += 2
        elif args[i] == '--tier':
            tier = args[i + 1]
            i += 2
        elif args[i] == '--no-tests':
            tests = False
            i += 1
        elif args[i] == '--tree':
            REPO = os.path.abspath(args[i + 1])
            TREE_ENV.update(PYTHONPATH=REPO, HL7APY_REPO=REPO)
            i += 2
        elif args[i] == '--out':
            outfile = args[i + 1]
            i += 2
        else:
            i += 1
    meta = {}
    mp = os.path.join(d, 'meta.json')
    if os.path.exists(mp):
        meta = json.load(open(mp))
    checks = checks or (list(meta.get('breaks') or []) + [c for c in meta.get('also_checked_by', []) if c not in (meta.get('breaks') or [])])
    patch = os.path.join(d, 'patch.diff')
    demo = os.path.join(d, 'demo.py')
    out = {'dir': d, 'checks': {}, 'tier': tier}
    rc, o, _ = sh('git -C %s status --porcelain --untracked-files=no' % REPO)
    if o.strip():
        print('refusing: /repo is not clean:\n' + o)
        return 2
    rc, o, _ = sh('git -C %s apply --check %s' % (REPO, patch))
    if rc != 0:
        print('patch does not apply:\n' + o)
        return 2
    sh('git -C %s apply %s' % (REPO, patch))
    env = dict(os.environ, PYTHONHASHSEED='0', VERIF_EVIDENCE_DIR='/dev/shm/audit-evidence-%d' % os.getpid(), **TREE_ENV)
    try:
        if tests:
            # private network namespace: the MLLP tests bind fixed ports that concurrent test runs on this host may hold
            rc, o, t = sh("unshare -rn sh -c 'ip link set lo up; cd %s && PYTHONPATH=%s /venv/bin/python -m pytest -q -p no:cacheprovider --timeout=900 tests 2>&1 | tail -3'" % (REPO, REPO))
            m = re.search(r'(\d+) passed', o)
            if not (m and int(m.group(1)) >= 353) or 'failed' in o:
                # one timing-dependent test of the suite fails now and then on a busy machine: once more before judging
                rc, o, t = sh("unshare -rn sh -c 'ip link set lo up; cd %s && PYTHONPATH=%s /venv/bin/python -m pytest -q -p no:cacheprovider --timeout=900 tests 2>&1 | tail -3'" % (REPO, REPO))
                m = re.search(r'(\d+) passed', o)
            out['tests'] = {'passed': int(m.group(1)) if m else 0, 'failed': 'failed' in o or 'error' in o.lower(), 'tail': o.strip()[-200:], 'wall_s': round(t, 1)}
        if os.path.exists(demo):
            rc, o, t = sh('cd %s && /venv/bin/python %s' % (d, demo), env=env, timeout=600)
            out['demo_with_change'] = {'exit': rc, 'tail': o.strip()[-300:]}
        for c in checks:
            rc, o, t = sh('cd %s && ./check %s %s' % (VERIF, c, tier), env=env, timeout=7200)
            viol = [l for l in o.splitlines() if l.startswith('VIOLATION')]
            keys = [l.strip()[:300] for l in o.splitlines() if l.strip().startswith('key=')][:5]
            out['checks'][c] = {'exit': rc, 'violations': len(viol), 'first_keys': keys, 'wall_s': round(t, 1),
                                'harness_error': 'HARNESS ERROR' in o, 'tail': o.strip()[-300:] if rc not in (0, 1) else ''}
    finally:
        sh('git -C %s checkout -- .' % REPO)
    if os.path.exists(demo):
        rc, o, t = sh('cd %s && /venv/bin/python %s' % (d, demo), env=env, timeout=600)
        out['demo_without_change'] = {'exit': rc, 'tail': o.strip()[-200:]}
    out['caught_by'] = sorted(c for c, r in out['checks'].items() if r['exit'] == 1 and r['violations'] > 0)
    out['valid_mutant'] = bool((not tests or (out['tests']['passed'] >= 353 and not out['tests']['failed'])) and
                               out.get('demo_with_change', {}).get('exit', 1) != 0 and out.get('demo_without_change', {}).get('exit', 0) == 0)
    with open(outfile or os.path.join(d, 'audit.json'), 'w') as f:
        json.dump(out, f, indent=1)
        f.write('\n')
    print(json.dumps(out, indent=1))
    return 0


if __name__ == '__main__':
    sys.exit(main())
