"""Regenerates the mutation-audit matrix at the end of DESIGN.md from seeded/*/audit.json and meta.json
(python -m mc.audit_matrix)."""
import glob, json, os, re
HERE = os.path.dirname(os.path.dirname(os.path.abspath(__file__)))
MARK = '(matrix inserted below by the audit)'


def first_line(path):
    try:
        for l in open(path):
            l = l.strip().lstrip('#').strip()
            if l:
                return l[:150]
    except OSError:
        pass
    return ''


def main():
    rows = []
    for d in sorted(glob.glob(os.path.join(HERE, 'seeded', '*'))):
        mp, ap = os.path.join(d, 'meta.json'), os.path.join(d, 'audit.json')
        if not os.path.exists(mp):
            continue
        meta = json.load(open(mp))
        a = json.load(open(ap)) if os.path.exists(ap) else {}
        first = meta.get('first_audit', {})
        rows.append((meta['id'], meta.get('summary') or first_line(os.path.join(d, 'notes.md')), meta.get('needs_to_manifest', ''),
                     a.get('valid_mutant'), ', '.join(a.get('caught_by', [])) or '-', first.get('caught_by', '?'), meta.get('strengthened', '')))
    out = ['| seeded change | what it does | caught by (quick) | first audit (before strengthening) | what was added to catch it |',
           '|---|---|---|---|---|']
    for r in rows:
        out.append('| %s | %s | %s | %s | %s |' % (r[0], r[1].replace('|', '/'), r[4], r[5], r[6].replace('|', '/')))
    p = os.path.join(HERE, 'DESIGN.md')
    s = open(p).read()
    i = s.index(MARK)
    s = s[:i + len(MARK)] + '\n\n' + '\n'.join(out) + '\n'
    open(p, 'w').write(s)
    print('%d seeded changes; caught: %d' % (len(rows), sum(1 for r in rows if r[4] != '-')))


main()
