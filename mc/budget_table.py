"""Developer tool: rewrite the "measured sizes" table in DESIGN.md (between its two markers) from the evidence files
of the last quick run and, when present, from /verif/thorough_sizes.json (numbers copied from the last thorough
sweep, which writes its evidence into a snapshot, not into /verif).  usage: python -m mc.budget_table"""
import json
import os

VERIF = os.path.dirname(os.path.dirname(os.path.abspath(__file__)))
BEGIN, END = '<!-- measured sizes: begin -->', '<!-- measured sizes: end -->'


def main():
    thorough = {}
    tp = os.path.join(VERIF, 'thorough_sizes.json')
    if os.path.exists(tp):
        thorough = json.load(open(tp))
    rows = ['| id | engine | quick: evaluations / states / transitions | quick wall (16 cores) | thorough: evaluations / states / transitions | thorough wall |',
            '|----|--------|------------------------------------------|----------------------|-----------------------------------------------|---------------|']
    for n in range(1, 20):
        pid = 'C%02d' % n
        p = os.path.join(VERIF, 'evidence', pid + '.json')
        if not os.path.exists(p):
            continue
        d = json.load(open(p))
        c = d['coverage']
        t = thorough.get(pid)
        rows.append('| %s | %s | %s / %s / %s | %.0f s | %s | %s |' % (
            pid, c.get('engine', ''), '{:,}'.format(c.get('evaluations', 0)), '{:,}'.format(c.get('states', 0)), '{:,}'.format(c.get('transitions', 0)),
            d.get('wall_s', 0),
            ('%s / %s / %s' % tuple('{:,}'.format(x) for x in t[:3])) if t else 'see section 5', ('%.0f s' % t[3]) if t else ''))
    path = os.path.join(VERIF, 'DESIGN.md')
    s = open(path).read()
    a, b = s.index(BEGIN) + len(BEGIN), s.index(END)
    s = s[:a] + '\n' + '\n'.join(rows) + '\n' + s[b:]
    open(path, 'w').write(s)
    print('\n'.join(rows))


if __name__ == '__main__':
    main()
