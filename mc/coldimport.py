"""One controlled interleaving of the lazy import of a version library (run in a fresh interpreter, where the
library is cold): thread A calls load_library(v) and is suspended when it starts importing the k-th submodule of
hl7apy.v2_x; thread B then makes the same first use.  Either B finishes (it must then have the right result) or B
is still waiting for the import (correct: the import lock) when A is resumed.  Prints one JSON line.

usage: python -m mc.coldimport <version> <k>"""
import builtins
import json
import sys
import threading

SUBS = ['messages', 'segments', 'fields', 'datatypes', 'groups', 'tables', 'base_datatypes']


def use(v):
    import hl7apy
    from hl7apy import load_library, load_reference
    from hl7apy.factories import datatype_factory
    lib = load_library(v)
    r = load_reference('MSH', 'Segment', v)
    return [sorted(lib.get_base_datatypes())[:3], r[0], lib.is_base_datatype('ST'),
            datatype_factory('NM', '12.5', v, 1).to_er7()]


def main():
    v, k = sys.argv[1], int(sys.argv[2])
    import hl7apy              # the package itself, not the version library
    import hl7apy.factories    # noqa
    modname = hl7apy.SUPPORTED_LIBRARIES[v]
    assert modname not in sys.modules
    a_paused = threading.Event()
    a_resume = threading.Event()
    a_ident = [None]
    real_import = builtins.__import__

    def hooked(name, globals=None, locals=None, fromlist=(), level=0):
        if threading.get_ident() == a_ident[0] and globals and globals.get('__name__') == modname and not a_paused.is_set():
            target = SUBS[k] if k < len(SUBS) else None
            wanted = (level == 1 and (name == target or (not name and target in (fromlist or ())))) or \
                     (level == 0 and target == 'base_datatypes' and name.endswith('base_datatypes'))
            if wanted:
                a_paused.set()
                a_resume.wait(30)
        return real_import(name, globals, locals, fromlist, level)

    out = {}

    def run(who):
        if who == 'a':
            a_ident[0] = threading.get_ident()
        try:
            out[who] = ['ok', use(v)]
        except BaseException as e:
            out[who] = ['raise', type(e).__name__, str(e)[:160]]
    builtins.__import__ = hooked
    try:
        ta = threading.Thread(target=run, args=('a',))
        ta.start()
        while ta.is_alive() and not a_paused.is_set():
            a_paused.wait(0.05)
        reached = a_paused.is_set()
        tb = threading.Thread(target=run, args=('b',))
        b_finished_while_a_paused = None
        if reached:
            tb.start()
            tb.join(1.5)
            b_finished_while_a_paused = not tb.is_alive()
        a_resume.set()
        ta.join(60)
        if reached:
            tb.join(60)
        else:
            tb.start()
            tb.join(60)
    finally:
        builtins.__import__ = real_import
    alone = ['ok', use(v)]
    print(json.dumps({'v': v, 'k': k, 'point_reached': bool(reached), 'b_finished_while_a_paused': b_finished_while_a_paused,
                      'a': out.get('a'), 'b': out.get('b'), 'alone': alone}))


if __name__ == '__main__':
    main()
