"""Shared harness pieces: library import pinning, fixed clock, defaults pinning,
fork pool, result record.  Nothing here decides a property."""
from __future__ import annotations

import contextlib
import datetime as _real_datetime
import hashlib
import importlib
import json
import multiprocessing
import os
import sys
import time
import traceback
from collections import Counter

VERIF = os.path.dirname(os.path.dirname(os.path.abspath(__file__)))
REPO = os.environ.get('HL7APY_REPO', '/repo')

import hl7apy  # noqa: E402  (editable install -> /repo working tree)
from hl7apy import consts  # noqa: E402

VERSIONS = ['2.1', '2.2', '2.3', '2.3.1', '2.4', '2.5', '2.5.1', '2.6', '2.7', '2.8', '2.8.1', '2.8.2']
STRICT = consts.VALIDATION_LEVEL.STRICT
TOLERANT = consts.VALIDATION_LEVEL.TOLERANT
NCPU = int(os.environ.get('VERIF_JOBS', '16'))


def lib_root():
    return os.path.dirname(os.path.dirname(os.path.abspath(hl7apy.__file__)))


def assert_lib_root():
    root = lib_root()
    if os.path.realpath(root) != os.path.realpath(REPO):
        raise SystemExit("harness error: hl7apy imported from %s, expected %s" % (root, REPO))
    return root


def git_describe():
    import subprocess
    try:
        out = subprocess.run(['git', '-C', REPO, 'rev-parse', '--short', 'HEAD'], capture_output=True,
                             text=True, timeout=20).stdout.strip()
        dirty = subprocess.run(['git', '-C', REPO, 'status', '--porcelain', '--untracked-files=no'],
                               capture_output=True, text=True, timeout=20).stdout.strip()
        return out + ('+dirty' if dirty else '')
    except Exception:
        return 'unknown'


# ----------------------------------------------------------------------------------
# fixed clock: Message.__init__ stamps MSH-7 with datetime.datetime.now()

class _FixedDateTime(_real_datetime.datetime):
    @classmethod
    def now(cls, tz=None):
        return cls(2020, 2, 29, 12, 30, 0)


class _DatetimeShim(object):
    datetime = _FixedDateTime

    def __getattr__(self, name):
        return getattr(_real_datetime, name)


FIXED_MSH7 = '20200229123000'


def install_fixed_clock():
    import hl7apy.core as core
    if not isinstance(core.datetime, _DatetimeShim):
        core.datetime = _DatetimeShim()


# ----------------------------------------------------------------------------------
# process-wide defaults

def get_defaults():
    return (hl7apy._DEFAULT_VERSION, hl7apy._DEFAULT_VALIDATION_LEVEL,
            hl7apy._DEFAULT_ENCODING_CHARS, hl7apy._DEFAULT_ENCODING_CHARS_27)


def set_defaults(t):
    (hl7apy._DEFAULT_VERSION, hl7apy._DEFAULT_VALIDATION_LEVEL,
     hl7apy._DEFAULT_ENCODING_CHARS, hl7apy._DEFAULT_ENCODING_CHARS_27) = t


BASE_DEFAULTS = None


def pin_defaults():
    """Record the pristine defaults once and re-install them (and check they were not mutated in place)."""
    global BASE_DEFAULTS
    if BASE_DEFAULTS is None:
        BASE_DEFAULTS = (consts.DEFAULT_VERSION, TOLERANT, consts.DEFAULT_ENCODING_CHARS,
                         consts.DEFAULT_ENCODING_CHARS_27)
    set_defaults(BASE_DEFAULTS)


@contextlib.contextmanager
def defaults(version=None, level=None, ec=None):
    old = get_defaults()
    try:
        if version is not None:
            hl7apy._DEFAULT_VERSION = version
        if level is not None:
            hl7apy._DEFAULT_VALIDATION_LEVEL = level
        if ec is not None:
            hl7apy._DEFAULT_ENCODING_CHARS = ec
        yield
    finally:
        set_defaults(old)


def load_all_libs():
    libs = {}
    for v in VERSIONS:
        libs[v] = importlib.import_module(hl7apy.SUPPORTED_LIBRARIES[v])
    return libs


LIBS = None


def libs():
    global LIBS
    if LIBS is None:
        LIBS = load_all_libs()
    return LIBS


def prepare():
    """Called once in the parent before forking."""
    assert_lib_root()
    install_fixed_clock()
    pin_defaults()
    libs()
    import hl7apy.parser  # noqa
    import hl7apy.mllp  # noqa


# ----------------------------------------------------------------------------------
# results

class Violation(object):
    __slots__ = ('key', 'what', 'point', 'rank')

    def __init__(self, key, what, point, rank=0):
        self.key = key          # stable finding key (string)
        self.what = what        # human text: expected vs observed
        self.point = point      # JSON-able description sufficient for replay
        self.rank = rank        # smaller = simpler witness

    def as_tuple(self):
        return (self.key, self.what, self.point, self.rank)


class Result(object):
    """Mergeable per-unit result."""

    def __init__(self):
        self.evaluations = 0          # executions of the real API
        self.states = 0               # distinct explored points / states
        self.transitions = 0          # API calls / transitions made
        self.validated = 0            # executions compared with the reference model on the real code
        self.nontrivial = 0           # distinct non-trivial cases (per-property rule)
        self.violations = {}          # key -> (what, point, rank, count)
        self.classes = Counter()      # distinct observed outcome classes
        self.dims = Counter()         # per-dimension coverage counters
        self.unspecified = Counter()  # oracle said "unspecified"
        self.blocked = Counter()      # precondition could not be built (blocked by a table anomaly)
        self.samples = []
        self.notes = []
        self.expected_size = 0        # closed-form size of the enumerated domain (self-check)
        self.enumerated = 0

    def violation(self, key, what, point, rank=0):
        cur = self.violations.get(key)
        if cur is None:
            self.violations[key] = [what, point, rank, 1]
        else:
            cur[3] += 1
            if rank < cur[2]:
                cur[0], cur[1], cur[2] = what, point, rank

    def sample(self, s, cap=6):
        if len(self.samples) < cap:
            self.samples.append(s)

    def merge(self, o):
        self.evaluations += o.evaluations
        self.states += o.states
        self.transitions += o.transitions
        self.validated += o.validated
        self.nontrivial += o.nontrivial
        self.expected_size += o.expected_size
        self.enumerated += o.enumerated
        for k, v in o.violations.items():
            cur = self.violations.get(k)
            if cur is None:
                self.violations[k] = list(v)
            else:
                cur[3] += v[3]
                if (v[2], json.dumps(v[1], sort_keys=True, default=str)) < \
                        (cur[2], json.dumps(cur[1], sort_keys=True, default=str)):
                    cur[0], cur[1], cur[2] = v[0], v[1], v[2]
        self.classes.update(o.classes)
        self.dims.update(o.dims)
        self.unspecified.update(o.unspecified)
        self.blocked.update(o.blocked)
        for s in o.samples:
            self.sample(s, cap=8)
        for n in o.notes:
            if n not in self.notes and len(self.notes) < 40:
                self.notes.append(n)


class HarnessError(Exception):
    pass


# ----------------------------------------------------------------------------------
# fork pool

_WORK_FN = None


def _run_unit(args):
    idx, unit, tier = args
    try:
        pin_defaults()
        _t0 = time.time()
        r = _WORK_FN(unit, tier)
        if os.environ.get('VERIF_PROF'):
            sys.stderr.write('PROF %.1fs %r\n' % (time.time() - _t0, unit))
        # every violation remembers the unit it was found in: a violation that depends on what the unit did before
        # (process-wide state left behind by earlier calls) is confirmed and replayed by re-running that unit
        for v in r.violations.values():
            if isinstance(v[1], dict) and '_unit' not in v[1]:
                try:
                    json.dumps(unit)
                    v[1]['_unit'] = unit
                except (TypeError, ValueError):
                    pass
        if get_defaults() != BASE_DEFAULTS:
            pin_defaults()
        return idx, r, None
    except BaseException:
        return idx, None, traceback.format_exc()


def run_units(work_fn, units, tier, jobs=None, progress=None, fresh_process_per_unit=True):
    """Run work_fn(unit, tier) -> Result over all units on a fork pool; merge in unit order independent way."""
    global _WORK_FN
    _WORK_FN = work_fn
    jobs = jobs or NCPU
    total = Result()
    t0 = time.time()
    n = len(units)
    if n == 0:
        return total
    tasks = [(i, u, tier) for i, u in enumerate(units)]
    if (jobs <= 1 or n == 1) and not fresh_process_per_unit:
        it = map(_run_unit, tasks)
        pool = None
    else:
        ctx = multiprocessing.get_context('fork')
        pool = ctx.Pool(max(1, min(jobs, n)), maxtasksperchild=1 if fresh_process_per_unit else None)
        it = pool.imap_unordered(_run_unit, tasks, chunksize=1)
    done = 0
    try:
        for idx, r, err in it:
            if err is not None:
                raise HarnessError("unit %r failed:\n%s" % (units[idx], err))
            total.merge(r)
            done += 1
            if progress and (done % progress == 0 or done == n):
                sys.stderr.write("  [%d/%d units, %.0fs]\n" % (done, n, time.time() - t0))
                sys.stderr.flush()
    finally:
        if pool is not None:
            pool.terminate()
            pool.join()
    return total


def rotate(units, seed):
    """VERIF_SEED only rotates the order in which units are handed to workers."""
    if not units:
        return units
    k = seed % len(units)
    return units[k:] + units[:k]


def sha(obj):
    return hashlib.sha1(json.dumps(obj, sort_keys=True, default=str).encode()).hexdigest()[:16]


def exc_class(e):
    return type(e).__name__


def is_lib_exc(e):
    from hl7apy.exceptions import HL7apyException
    return isinstance(e, HL7apyException)
