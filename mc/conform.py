"""Builders of conforming elements through the public API, driven by the tables (or by a profile
reference of the same shape): required children present, cardinalities respected."""
from __future__ import annotations

from . import tables, refmodel, structures as st
from .tables import Row


def leaf_text(v, dt):
    return tables.literal(dt, v) if tables.is_base(v, dt) else 'x'


def comp_text(v, row, ec):
    """text of one component: leaf literal, or its required subcomponents (first one if none is required)"""
    if row.kind == 'leaf':
        return leaf_text(v, row.datatype)
    subs = [s for s in row.children if s.card[1] != 0]       # max 0 = withdrawn
    req = [s for s in subs if s.card[0] >= 1]
    if not req and subs:
        req = [subs[0]]
    d = {tables.comp_index(s.name): leaf_text(v, s.datatype) for s in req}
    return refmodel.enc_component(d, ec)


def field_text(v, row, ec):
    """conforming text of one field repetition: required components filled (the first one if none is required)"""
    if row.kind == 'leaf':
        dt = row.datatype
        if dt == 'varies' or dt is None:
            return 'x'
        return leaf_text(v, dt)
    comps = [c for c in row.children if c.card[1] != 0]       # max 0 = withdrawn
    req = [c for c in comps if c.card[0] >= 1]
    if not req and comps:
        req = [comps[0]]
    d = {tables.comp_index(c.name): comp_text(v, c, ec) for c in req}
    return refmodel.enc_rep(d, ec)


def seg_rows(seg_ref):
    return [Row(c) for c in st.children_of(seg_ref)]


def fill_segment(seg, v, seg_ref, skip=None, ec=None):
    """assign every required field of the segment (table order); skip: a field name to leave out"""
    ec = ec or refmodel.default_ec(v)
    for r in seg_rows(seg_ref):
        if not r.ok or r.card[0] < 1:
            continue
        if seg.name == 'MSH' and r.name in ('MSH_1', 'MSH_2'):
            continue
        if r.name == skip:
            continue
        if seg.name == 'MSH' and r.name == 'MSH_12':
            if not seg.msh_12.to_er7():
                seg.msh_12 = v
            continue
        setattr(seg, r.name.lower(), field_text(v, r, ec))


def build_message(v, name, tree, reference=None, level=None, skip=None, extra=None, spell_structure=False):
    """Build the derivation tree through the API.  skip: path tuple of a child to leave out.
    extra: (path of parent, child name, copies) to add copies of a child.  Returns the Message."""
    from hl7apy.core import Message
    from hl7apy.consts import VALIDATION_LEVEL
    level = level or VALIDATION_LEVEL.TOLERANT
    m = Message(name, version=v, validation_level=level, reference=reference)
    ref = m.reference

    def build(parent, pref, nodes, path):
        decl = st.declared_children(pref)
        for n in nodes:
            here = path + (n[1],)
            if skip == here:
                continue
            cref = decl[n[1]][1]
            if n[0] == 'S':
                if n[1] == 'MSH' and parent is m:
                    s = m.msh
                else:
                    s = parent.add_segment(n[1])
                fill_segment(s, v, cref, skip=(skip[-1] if skip and skip[:-1] == here else None))
            else:
                g = parent.add_group(n[1])
                build(g, cref, n[2], here)
    build(m, ref, tree, ())
    rows7 = dict(tables.field_rows(v, 'MSH'))
    if rows7.get(7) is not None and rows7[7].kind != 'leaf':
        # Message() stamps MSH-7 with a bare time; some versions require further components of TS
        m.msh.msh_7 = field_text(v, rows7[7], refmodel.default_ec(v))
    if True:
        parts = (name.split('_') + ['A01', ''])[:2]
        rows = dict(tables.field_rows(v, 'MSH'))
        ncomp = len(rows[9].children)
        # a structure id without underscore (ACK) cannot be derived from type^event: spell it out as third component
        m.msh.msh_9 = '%s^%s^%s' % (parts[0], parts[1], name) if ncomp >= 3 or ('_' not in name and spell_structure) else '%s^%s' % (parts[0], parts[1])
    return m


def find_parent(m, path):
    """the element reached by following group names in path (first repetition each)"""
    e = m
    for p in path:
        e = getattr(e, p.lower())[0]
    return e
