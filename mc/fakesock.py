"""Scripted in-memory socket standing in for an accepted TCP connection.

The script is a list of byte chunks (how the client's bytes are cut into arrivals).  A read
(recv / recv_into) never crosses a chunk boundary: it returns at most what has "arrived".  When the
script is exhausted the environment answers `after` ('timeout' or 'eof').  A fault (timeout or EOF)
can be injected at the k-th read instead of delivering data; after an injected fault the peer stays
silent (timeout) or closed (EOF).
"""
from __future__ import annotations

import io
import socket


class FakeSocket(object):
    def __init__(self, chunks, fault=None, after='timeout', on_op=None):
        self.chunks = [bytes(c) for c in chunks if len(c) > 0]
        self.ci = 0
        self.off = 0
        self.fault = fault          # None or (read_index, 'timeout' | 'eof')
        self.after = after
        self.reads = 0
        self.delivered = bytearray()
        self.sent = bytearray()
        self.closed = False
        self.close_calls = 0
        self.shutdown_calls = 0
        self.faulted = None
        self.timeout_value = None
        self._io_refs = 0
        self.on_op = on_op          # scheduling hook for multi-connection harnesses
        self.log = []

    # -- reading ------------------------------------------------------------------------------
    def _next(self, n):
        if self.on_op:
            self.on_op('recv')
        if self.closed:
            raise OSError(9, 'Bad file descriptor')
        k = self.reads
        self.reads += 1
        if self.faulted == 'eof':
            return b''
        if self.faulted == 'timeout':
            raise socket.timeout('timed out')
        if self.fault is not None and self.fault[0] == k:
            self.faulted = self.fault[1]
            self.log.append(('fault', k, self.faulted))
            if self.faulted == 'eof':
                return b''
            raise socket.timeout('timed out')
        if self.ci >= len(self.chunks):
            self.log.append(('exhausted', k, self.after))
            if self.after == 'eof':
                return b''
            raise socket.timeout('timed out')
        c = self.chunks[self.ci]
        data = c[self.off:self.off + n]
        self.off += len(data)
        if self.off >= len(c):
            self.ci += 1
            self.off = 0
        self.delivered += data
        return data

    def recv(self, n, flags=0):
        return self._next(n)

    def recv_into(self, buf, nbytes=0, flags=0):
        n = nbytes or len(buf)
        data = self._next(n)
        buf[:len(data)] = data
        return len(data)

    # -- writing ------------------------------------------------------------------------------
    def sendall(self, data, flags=0):
        if self.on_op:
            self.on_op('send')
        if self.closed:
            raise OSError(9, 'Bad file descriptor')
        self.sent += bytes(data)

    SEND_CAP = 5

    def send(self, data, flags=0):
        """one attempt, like the system call: the peer's window takes at most SEND_CAP bytes; the caller has to look at
        the count returned and go on (sendall does)"""
        part = bytes(data)[:self.SEND_CAP] if self.SEND_CAP else bytes(data)
        self.sendall(part)
        return len(part)

    # -- the rest of what socketserver touches ----------------------------------------------------
    def makefile(self, mode='r', buffering=None, **kw):
        raw = socket.SocketIO(self, 'rb' if 'r' in mode else 'wb')
        self._io_refs += 1
        if buffering == 0:
            return raw
        if 'r' in mode:
            return io.BufferedReader(raw, io.DEFAULT_BUFFER_SIZE if buffering in (None, -1) else buffering)
        return io.BufferedWriter(raw)

    def _decref_socketios(self):
        if self._io_refs > 0:
            self._io_refs -= 1

    def settimeout(self, t):
        self.timeout_value = t

    def gettimeout(self):
        return self.timeout_value

    def setsockopt(self, *a):
        pass

    def getpeername(self):
        return ('127.0.0.1', 1)

    def fileno(self):
        return -1

    def shutdown(self, how):
        self.shutdown_calls += 1
        if self.closed:
            raise OSError(107, 'Transport endpoint is not connected')

    def close(self):
        if self.on_op:
            self.on_op('close')
        self.close_calls += 1
        self.closed = True


def compositions(n, max_parts):
    """All ways to cut a string of length n into 1..max_parts non-empty consecutive parts, as tuples of cut
    positions (strictly increasing, in 1..n-1)."""
    import itertools
    for parts in range(1, max_parts + 1):
        for cuts in itertools.combinations(range(1, n), parts - 1):
            yield cuts


def cut(data, cuts):
    out = []
    prev = 0
    for c in list(cuts) + [len(data)]:
        out.append(data[prev:c])
        prev = c
    return out


def n_compositions(n, max_parts):
    from math import comb
    return sum(comb(n - 1, p - 1) for p in range(1, max_parts + 1))
