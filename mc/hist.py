"""E2 — explicit-state breadth-first search over public-API histories of real hl7apy objects.

state      = history (tuple of operation descriptors) applied to a fixed root recipe
build(h)   = fresh real objects (root + donors), operations replayed one by one
key(state) = canonical form of the whole object graph reachable from every pool object
frontier   = one shortest history per distinct key (BFS => the first counter-example is a shortest one)
step       = for every op of the alphabet: rebuild, observe, apply, observe, run the transition
             oracles of the property, hash the successor

Live Element objects cannot be deep-copied (__getattr__/__setattr__ are overridden), hence the
rebuild-by-replay.  Levels are expanded in parallel on a fork pool; deduplication happens in the
parent on process-independent keys.
"""
from __future__ import annotations

import hashlib
import importlib

from . import common
from .common import Result, HarnessError

_RAW = object.__getattribute__


def _d(obj):
    try:
        return _RAW(obj, '__dict__')
    except AttributeError:
        return {}


# ------------------------------------------------------------------------------- canonical state

def canon(pool_objs):
    """Canonical, process-independent description of everything reachable from the pool objects:
    every Element with its scalar attributes, ordered child list, by-name index, traversal index, parent and
    traversal-parent pointers (object identity -> first-visit number); datatype objects by value.
    The memo of ElementProxy objects (`proxies`) is dropped: it is rebuilt on demand and never observable."""
    from hl7apy.core import Element, ElementList
    from hl7apy.base_datatypes import BaseDataType
    num = {}
    out = []
    queue = []

    def ref(e):
        if e is None:
            return None
        if id(e) not in num:
            num[id(e)] = len(num)
            queue.append(e)
        return num[id(e)]

    for o in pool_objs:
        ref(o)
    qi = 0
    while qi < len(queue):
        e = queue[qi]
        qi += 1
        d = _d(e)
        rec = [type(e).__name__]
        for k in sorted(d):
            v = d[k]
            if k in ('structure_by_name', 'structure_by_longname', 'reference', 'child_classes'):
                # determined by (class, name, version, datatype, ordered_children, repetitions) which are all recorded
                rec.append((k, v is None))
            elif k == 'children':
                if isinstance(v, ElementList):
                    ld = _d(v)
                    rec.append(('children.list', tuple(ref(c) for c in ld.get('list', ()))))
                    rec.append(('children.indexes', tuple(sorted(((str(n), tuple(ref(c) for c in cs)) for n, cs in ld.get('indexes', {}).items() if cs), key=lambda t: t[0]))))
                    rec.append(('children.traversal', tuple(sorted(((str(n), tuple(ref(c) for c in cs)) for n, cs in ld.get('traversal_indexes', {}).items() if cs), key=lambda t: t[0]))))
                    rec.append(('children.element', ref(ld.get('element'))))
                    # the memo of ElementProxy objects: which names have one, and any state a proxy carries beyond its two
                    # defining attributes (the unmodified library keeps none; a change that makes proxies stateful must not
                    # be merged away by the canonical key)
                    prox = []
                    index_lists = list(ld.get('indexes', {}).values()) + list(ld.get('traversal_indexes', {}).values())
                    for pn, pobj in sorted(ld.get('proxies', {}).items(), key=lambda t: str(t[0])):
                        extras = []
                        for ak, av in sorted(_d(pobj).items()):
                            if ak in ('element_list', 'element_name'):
                                continue
                            if isinstance(av, list):
                                extras.append((ak, 'list', tuple(ref(c) for c in av if isinstance(c, Element)), any(av is L for L in index_lists)))
                            elif isinstance(av, Element):
                                extras.append((ak, 'el', ref(av)))
                            elif isinstance(av, (str, int, float, bool, type(None))):
                                extras.append((ak, av))
                            else:
                                extras.append((ak, type(av).__name__))
                        prox.append((str(pn), tuple(extras)))
                    rec.append(('children.proxies', tuple(prox)))
                else:
                    rec.append(('children', repr(type(v))))
            elif isinstance(v, Element):
                rec.append((k, ('el', ref(v))))
            elif isinstance(v, BaseDataType):
                rec.append((k, (type(v).__module__, type(v).__name__, tuple(sorted((a, repr(b)) for a, b in vars(v).items())))))
            elif isinstance(v, (str, int, float, bool, type(None))):
                rec.append((k, v))
            elif isinstance(v, (list, tuple)):
                rec.append((k, tuple(map(str, v))))
            elif isinstance(v, dict):
                rec.append((k, tuple(sorted((str(a), str(b)) for a, b in v.items()))))
            else:
                rec.append((k, type(v).__name__))
        out.append(tuple(rec))
    return hashlib.sha1(repr(out).encode()).hexdigest()[:20], len(out)


# ------------------------------------------------------------------------------- public observations

def tree(e, depth=0):
    """Recursive children listing through the public API only."""
    try:
        kids = list(e.children)
    except Exception:
        kids = []
    return (type(e).__name__, e.name, getattr(e, 'datatype', None) if type(e).__name__ != 'Segment' else None,
            tuple(tree(c, depth + 1) for c in kids) if depth < 8 else ())


def er7(e):
    try:
        return ('ok', e.to_er7())
    except Exception as x:
        return ('raise', type(x).__name__)


def report(e):
    try:
        r = e.validate(return_errors=True)
        return ('ok', r.is_valid, tuple(str(x) for x in r.errors), tuple(str(x) for x in r.warnings))
    except Exception as x:
        return ('raise', type(x).__name__)


def observe(pool):
    return {k: (er7(v), tree(v)) for k, v in pool.items() if hasattr(v, 'to_er7')}


# ------------------------------------------------------------------------------- the search

class Spec(object):
    """A property module provides subclasses.  All methods run in worker processes."""
    sid = ''
    max_depth = 3

    def build(self):
        """-> dict name -> fresh object (the pool).  'root' is the object under test."""
        raise NotImplementedError

    def alphabet(self, pool, hist):
        raise NotImplementedError

    def apply(self, pool, op):
        """perform op on the live pool; exceptions propagate"""
        raise NotImplementedError

    def model_init(self):
        return None

    def model_apply(self, model, op, pool_before):
        """-> (new model, expectation) where expectation in ('ok', 'raise', None=unspecified)"""
        return model, None

    def check(self, res, ctx):
        """transition oracle"""

    def initial_check(self, res, pool, model):
        pass


class Ctx(object):
    __slots__ = ('hist', 'op', 'before', 'after', 'outcome', 'exc', 'pool', 'model_before', 'model_after', 'expect', 'spec', 'depth')


def run_history(spec, hist):
    """Replay hist on a fresh pool.  -> (pool, model, outcomes)"""
    pool = spec.build()
    model = spec.model_init()
    outs = []
    obs = spec.observe if hasattr(spec, 'observe') else observe
    for op in hist:
        # the search observed the state before every operation it applied; the replay does the same, so that a state
        # is rebuilt by exactly the calls (operations *and* observations) that first reached it
        obs(pool)
        new_model, _ = spec.model_apply(model, op, pool)
        try:
            spec.apply(pool, op)
            outs.append('ok')
            model = new_model            # a rejected operation leaves the reference model where it was
        except Exception as e:
            outs.append('raise:' + type(e).__name__)
    return pool, model, outs


def expand(spec, hist, res, successors):
    pool0, model0, _ = run_history(spec, hist)
    ops = spec.alphabet(pool0, hist)
    for op in ops:
        pool, model, _ = run_history(spec, hist)
        ctx = Ctx()
        ctx.spec, ctx.hist, ctx.op, ctx.pool, ctx.depth = spec, hist, op, pool, len(hist) + 1
        ctx.before = spec.observe(pool) if hasattr(spec, 'observe') else observe(pool)
        ctx.model_before = model
        ctx.model_after, ctx.expect = spec.model_apply(model, op, pool)
        try:
            spec.apply(pool, op)
            ctx.outcome, ctx.exc = 'ok', None
        except Exception as e:
            ctx.outcome, ctx.exc = 'raise', e
        ctx.after = spec.observe(pool) if hasattr(spec, 'observe') else observe(pool)
        res.transitions += 1
        res.evaluations += 1
        res.validated += 1
        if ctx.outcome == 'raise':
            res.dims['rejected transitions'] += 1
        res.classes['%s:%s' % (op[0], ctx.outcome if ctx.outcome == 'ok' else 'raise:' + type(ctx.exc).__name__)] += 1
        spec.check(res, ctx)
        key, size = canon(spec.state_objects(pool) if hasattr(spec, 'state_objects') else list(pool.values()))
        successors.append((spec.sid, hist + (op,), key))


def _work(unit, tier):
    modname, sid, hists = unit
    mod = importlib.import_module(modname)
    spec = mod.SPECS[sid]
    res = Result()
    succ = []
    for h in hists:
        expand(spec, tuple(tuple(o) if isinstance(o, list) else o for o in h), res, succ)
    res.payload = succ
    return res


def bfs(modname, sid, depth, tier, total, chunk=None, max_states=None):
    r = bfs_many(modname, [sid], depth, tier, total, max_states=max_states)
    return r[sid]


def bfs_many(modname, sids, depth, tier, total, max_states=None, depth_of=None):
    """Run the searches of several specs level by level on one pool (better load balance than one spec at a
    time).  depth_of: optional {sid: depth}.  Returns {sid: (states, sizes per depth)}."""
    mod = importlib.import_module(modname)
    seen, frontier, sizes = {}, {}, {}
    for sid in sids:
        spec = mod.SPECS[sid]
        pool, model, _ = run_history(spec, ())
        spec.initial_check(total, pool, model)
        k0, _ = canon(spec.state_objects(pool) if hasattr(spec, 'state_objects') else list(pool.values()))
        seen[sid] = {k0}
        frontier[sid] = [()]
        sizes[sid] = [1]
    for d in range(depth):
        todo = [(sid, h) for sid in sids for h in frontier[sid] if d < (depth_of or {}).get(sid, depth)]
        if not todo:
            break
        chunk = max(1, min(16, len(todo) // (common.NCPU * 6) + 1))
        units = []
        for sid in sids:
            hs = [h for s2, h in todo if s2 == sid]
            for i in range(0, len(hs), chunk):
                units.append((modname, sid, hs[i:i + chunk]))
        payloads = {sid: [] for sid in sids}

        def collect(r):
            for sid, hist_, key in getattr(r, 'payload', []):
                payloads[sid].append((hist_, key))
        lvl = run_units_collect(units, tier, collect)
        total.merge(lvl)
        for sid in sids:
            nxt = []
            # deterministic order: the lexicographically first history represents a state
            for hist_, key in sorted(payloads[sid], key=lambda t: repr(t[0])):
                if key not in seen[sid]:
                    seen[sid].add(key)
                    nxt.append(hist_)
            if payloads[sid] or frontier[sid]:
                sizes[sid].append(len(nxt))
            frontier[sid] = nxt
            if max_states is not None and len(seen[sid]) > max_states and d + 1 < depth:
                raise HarnessError('state cap %d exceeded at depth %d for %s (not exhaustive)' % (max_states, d + 1, sid))
    out = {}
    for sid in sids:
        n = len(seen[sid])
        total.states += n
        total.enumerated += n
        total.expected_size += n
        out[sid] = (n, sizes[sid])
    return out


def run_units_collect(units, tier, collect):
    """like common.run_units but hands every unit result to collect() before merging (payloads are not merged)."""
    import multiprocessing
    import time
    common._WORK_FN = _work
    total = Result()
    if not units:
        return total
    tasks = [(i, u, tier) for i, u in enumerate(units)]
    jobs = min(common.NCPU, len(units))
    if jobs <= 1:
        it = map(common._run_unit, tasks)
        pool = None
    else:
        # one fresh process per unit: nothing a transition leaves behind in process-wide state reaches another unit
        pool = multiprocessing.get_context('fork').Pool(jobs, maxtasksperchild=1)
        it = pool.imap_unordered(common._run_unit, tasks, chunksize=1)
    try:
        for idx, r, err in it:
            if err is not None:
                raise HarnessError('unit failed:\n%s' % err)
            collect(r)
            r.payload = None
            total.merge(r)
    finally:
        if pool is not None:
            pool.terminate()
            pool.join()
    return total


def replay_history(modname, sid, hist, res):
    """Re-run the oracles along one history (used by replay files)."""
    mod = importlib.import_module(modname)
    spec = mod.SPECS[sid]
    hist = tuple(tuple(o) if isinstance(o, list) else o for o in hist)
    hist = tuple(_tuplify(o) for o in hist)
    succ = []
    # oracles are transition oracles: check every prefix's last step
    for n in range(len(hist)):
        pre, op = hist[:n], hist[n]
        pool, model, _ = run_history(spec, pre)
        ctx = Ctx()
        ctx.spec, ctx.hist, ctx.op, ctx.pool, ctx.depth = spec, pre, op, pool, n + 1
        ctx.before = spec.observe(pool) if hasattr(spec, 'observe') else observe(pool)
        ctx.model_before = model
        ctx.model_after, ctx.expect = spec.model_apply(model, op, pool)
        try:
            spec.apply(pool, op)
            ctx.outcome, ctx.exc = 'ok', None
        except Exception as e:
            ctx.outcome, ctx.exc = 'raise', e
        ctx.after = spec.observe(pool) if hasattr(spec, 'observe') else observe(pool)
        spec.check(res, ctx)


def _tuplify(o):
    if isinstance(o, list):
        return tuple(_tuplify(x) for x in o)
    return o
