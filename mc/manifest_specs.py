"""Per-property manifest entries.  A property moves from NOT_APPLICABLE ("not built yet") to CHECKS
when its check exists, is silent on the unchanged tree and writes valid evidence."""

E1 = 'E1 grid'
E2 = 'E2 hist'
E3 = 'E3 sched'

CHECKS = {
    'C01': dict(
        engine=E1, design_ref='DESIGN.md section 7 C01',
        technique='bounded-exhaustive enumeration of canonical ER7 shapes over every segment of every version table '
                  '(each leaf alone, all leaves, repetitions, pairs, escape words) through the real parsers; oracle: string identity',
        text='For every one of the 1,657 segment definitions of the 12 versions the check generates, from the tables, the '
             'canonical text with each of the 272,329 leaf positions filled alone (typed literal and plain text), with all '
             'leaves filled (1-2 repetitions; thorough 3 with an empty middle one, all leaf pairs inside a field, all field '
             'pairs, escape-language words), feeds it to parse_segment / parse_field / parse_component and, wrapped in a '
             'message whose structure lists the segment, to parse_message with find_groups on and off under default and two '
             'custom delimiter sets and one set that differs from the default in a single role, and requires to_er7() to return the input. Complete for the stated shapes; leaf text is '
             'one literal per datatype.',
        note='trusted: reference ER7 encoder (generator) and the tables as definition of positions; 34 known table defects keyed per (version, segment)'),
    'C02': dict(
        engine=E1, design_ref='DESIGN.md section 7 C02',
        technique='exhaustive enumeration of every table row (version x segment x field x component x subcomponent; version '
                  'x datatype x component) and open-ended indices on the real build/encode/parse API; oracle: reference encoder equality',
        text='Every field row (24,727), every leaf position (272,329), every complex-datatype component/subcomponent through '
             'a Z-field scaffold, every base datatype, and Z-/varies-ended segments over indices 1..64 (thorough 512; ordered '
             'pairs of 12 indices; assign-then-delete) are built by name, encoded and compared with the reference encoding of '
             '"value at (i,j,k), nothing else"; the reference text is parsed back and looked up under the same name. Every '
             'segment and datatype is instantiated; for adjacent versions (both directions, fresh process each) the first, middle and last field of '
             'every shared segment are checked after the segment was used in the other version. Exhaustive over the tables.',
        note='trusted: tables define positions (field number = number in the name); reference encoder; 63 known table defects (D1-D3) keyed by full position map'),
    'C07': dict(
        engine=E1, design_ref='DESIGN.md section 7 C07',
        technique='exhaustive enumeration of all injective role-to-character assignments over a punctuation pool x versions x two '
                  'construction paths on the real API; oracle: reference encoder equality, read-back on every descendant, re-parse',
        text='For 2.3, 2.5, 2.7 and 2.8.2 every injective assignment of the 5 roles (720) and, from 2.7, of the 6 roles (720) to a '
             '6-character pool with regex-special members (every 6th assignment for the other 8 versions in quick; all assignments '
             'over an 8-character pool in thorough) is used to build a message with a repeated field, a component pair, a '
             'subcomponent pair and a text leaf containing every delimiter, through Message(encoding_chars=) and through '
             'parse_message of the reference text: to_er7() must equal the reference encoding, to_mllp() must frame it, '
             'encoding_chars must read back on the message and on every descendant, and parse_message(to_er7()) must recover the '
             'set. Every single-defect set (each key missing, each pair of roles equal incl. truncation, non-dict, malformed '
             'MSH-2) must raise InvalidEncodingChars at three entry points, as the first thing the process sees and again after '
             'the valid sets it derives from have been used, and when assigned to an existing message; sets that differ from the default in '
             'one role, every punctuation character in every role, the set assigned to an existing message before it is filled and the independence '
             'of the dictionary read back from other messages are checked per version; the reference text with a Z segment and with a standard segment the '
             'structure does not list must re-encode identically with group finding on and off.',
        note='trusted: reference encoder/escaper; pool excludes characters that occur in the recipe content'),
    'C09': dict(
        engine=E2, design_ref='DESIGN.md section 7 C09, section 3.2',
        technique='explicit-state breadth-first search over API histories of real objects (rebuild-by-replay, canonical '
                  'object-graph hashing), every transition compared with a reference list model',
        text='From 9 roots (Segment empty / parsed / STRICT / Z / varies-ended, Field, flat Message TOLERANT and STRICT, Group) '
             'all histories up to depth 3 (thorough 4) over an alphabet of ~73 operations (set by name / lower case / long name / '
             'element, proxy[i]=, children[i]=, add, add_<child> helper, del, del proxy[i], remove, pop, copy from a donor by '
             'proxy and by element, donor mutations, reads and a refused write through the proxy of a child - which leave temporary '
             'traversal children behind, writes through the proxy, copies addressed by long name, a repetition replaced by another repetition of the same parent, the proxy of a child of the same parent assigned to a repetition or to a sibling; one root whose by-name entry was emptied) are explored after canonical state merging (~16,000 states, ~125,000 '
             'transitions in quick); after each accepted transition the per-name repetition texts, the children order and the '
             'ER7 encoding of root and donor must equal those of an insertion-ordered list of (name, text) entries.',
        note='trusted: the list model (100 lines), reference encoder; 3 child names and 2 values per root; canonical key drops only the proxy memo'),
    'C10': dict(
        engine=E2, design_ref='DESIGN.md section 7 C10',
        technique='explicit-state breadth-first search over attach / re-attach / assign / delete histories on a pool of 12 real '
                  'objects; invariants evaluated through public observers in every reached state',
        text='Two pools (TOLERANT, STRICT) of message, group, 3 segments, 4 fields (one of the other level, one of another '
             'version), 2 components and a subcomponent; 94 operations (add / parent= / children.append / assignment / '
             'children[0]= over 20 ordered pairs, parent=None, traversal reads and writes, deletions, helpers, value '
             'assignment), all histories to depth 3 (thorough 4) from the separate objects and to depth 2 (3) from an assembled '
             'tree whose children have been looked up by name: ~18,800 states, ~187,000 transitions. In every state: each '
             'listed child reports its lister as parent, no element is listed by two parents or twice, iteration / len / in / [] '
             '/ named lookup agree, one version and one level per tree.',
        note='trusted: the invariant evaluator (public observers only); rejected calls are transitions too'),
    'C11': dict(
        engine=E2, design_ref='DESIGN.md section 7 C11',
        technique='explicit-state breadth-first search over read/write histories (chains of depth 1-4 by name, long name and '
                  'positional path x observers) on real objects, plus an exhaustive read-then-write sweep over every leaf path of '
                  'the segments of a version; oracle: before/after equality for reads, reference encoding + "new nodes form one path" for writes',
        text='12 roots (empty and parsed Message, STRICT Message, empty / parsed / STRICT Segment, Z-segment, empty and parsed '
             'Field, and Message / Segment / Field whose first children were created through the add_* helpers); ~70 operations per '
             'root (13 chains x 3 observers: len+iteration+repr+empty slice+bool in one, the chain walked twice, and the element at '
             'the end dereferenced through .value / .to_er7() / .children; root '
             'to_er7 / validate / children; writes by assignment, .value and datatype object at the end of each chain); all '
             'histories to depth 3 (thorough: 4 from three roots, 3 from the others). A read must leave encoding (also with trailing children), recursive listing and validation report identical; '
             'a write must produce the reference encoding of old content + value at that position and the newly listed elements '
             'must lie on one path. Sweep: every leaf path of every 4th (thorough: every) segment of v2.5 (+2.8.2, 2.3) is read '
             'on an empty segment, then written.',
        note='trusted: reference content model and encoder; leaf values without separators'),
    'C12': dict(
        engine=E2, design_ref='DESIGN.md section 7 C12',
        technique='explicit-state breadth-first search: every state reachable by set/add/delete/copy histories x every rejecting '
                  'operation; before/after equality of the complete public observation on every transition that raises',
        text='13 roots (Segment TOLERANT/STRICT and inside a Message, empty STRICT Segment and Group, Z segment and varies-ended segment, Field T/S, flat Message T/S, '
             'Group T/S); building alphabet of 16 operations plus ~45 rejecting operations (wrong class, wrong / foreign / unknown name, other validation level or '
             'version by add / assignment / indexed assignment, cardinality overflow, invalid and over-long values under STRICT, '
             'absent child or index deletion, foreign remove, datatype change on a populated element, value text of another '
             'segment / message, value whose children are refused midway, a datatype object the child refuses, a refused value assigned to a valued subcomponent object, a child that already '
             'belongs to an element of another level / version offered by add and by parent=, a STRICT move beyond the maximum); '
             'all histories to depth 3 (thorough 4): ~8,900 states, ~85,000 transitions. Whenever a call raises, encoding, recursive listing (class, name, datatype, text per node) and '
             'per-name repetitions of target, donor and ancestor must be unchanged and the C10 invariants must hold.',
        note='trusted: public observers; exception classes are not judged here'),
    'C13': dict(
        engine=E1, design_ref='DESIGN.md section 7 C13',
        technique='exhaustive enumeration of date / time-of-day / offset / fraction grids, single-position substitutions and '
                  'all short numeric strings through the real factories under both levels; three-valued reference lexical definitions',
        text='Complete grids (DT years x months 00-13 x days 00-32; TM 00-29 x 00-69 x 00-69 at three precisions; all offsets '
             '+/-HH(00-29)MM(00-69); fraction forms; DTM date grid x time precisions and calendar boundaries), every valid '
             'literal with every position replaced by each of 17 symbols (for all 12 versions, via factory and SubComponent), '
             'all strings <= 4 (5) over a 9-symbol numeric alphabet for NM and SI, and lengths at/above every maximum length '
             'are classified by independent lexical definitions into must-accept / must-reject / unspecified and compared '
             'with STRICT acceptance, the re-encoded text, TOLERANT verbatim preservation and utils.check_*.',
        note='trusted: python calendar module, reference regular expressions; unspecified band (years<1000, +14MM/-12MM, .5/5., +SI) never reported'),
    'C14': dict(
        engine=E1, design_ref='DESIGN.md section 7 C14',
        technique='exhaustive enumeration over the version tables of every child position x every pair of spellings (HL7 name, long '
                  'name, positional path; upper / lower / mixed case) x {set, get, delete} on the real attribute API; oracle: object identity',
        text='For every segment of 2.5 and 2.7 and every third segment of the other versions (thorough: all 1,657) every field, '
             'component and subcomponent is written through each spelling and read back through every other spelling: the proxy '
             'must hold exactly the element written (identity) with the written value; after a delete through one spelling every '
             'other spelling must be empty; the only child of every base-datatype field of every segment of every version is '
             'addressed by datatype name (three cases) and by position. ~3.4 million (write spelling, read spelling) pairs in quick. Per parent, names that '
             'designate no child (a child of another parent, index past the last, index 99, index 0 and negative indices, malformed paths) must raise '
             'ChildNotFound / ChildNotValid for get, set and delete and leave the parent unchanged. A datatype object assigned by long name and add_field with a long name '
             'create the child under its HL7 name; after the datatype of a field is replaced the long names follow the new datatype.',
        note='trusted: the tables as definition of names; 251 long names excluded (duplicated in the parent or equal to an attribute of the element class)'),
    'C15': dict(
        engine=E1, design_ref='DESIGN.md section 7 C15',
        technique='exhaustive enumeration of mutation families of one seed message per version and of all short strings over a '
                  '13-symbol alphabet through parse_message / get_message_type under both levels; oracle: exception class membership',
        text='Per version: truncation at every byte, deletion and duplication of every delimiter occurrence, every MSH-2 length '
             '0-6 x header field count 2-13, 150 MSH-9 x MSH-12 combinations, every segment id replaced by 9 alternatives, blank '
             'lines at every position, CRLF / LF, plus all strings up to length 4 (thorough 5) over {M S H | ^ ~ \\ & CR 2 . 5 A} '
             'after 3 prefixes (~99,000 distinct inputs x 2 levels); a second seed with nested and sibling groups (ORU_R01) with every '
             'segment id replaced by 8 alternatives, 6 lines inserted once and twice at every position, every line deleted, every '
             'pair of lines swapped; ordered pairs of texts whose delimiter sets differ in one character, each pair in a fresh process; one message per segment of every version with every leaf valued goes through parse, to_er7 and validate; every segment name of the '
             'version replaces every segment of the seed; the junk alphabet holds a blank and a sharp s. Every outcome must be a value, an HL7apyException or (STRICT) a '
             'ValueError; every returned message must encode and must return a validation report.',
        note='trusted: traceback inspection for the finding key only'),
    'C16': dict(
        engine=E3, design_ref='DESIGN.md section 7 C16',
        technique='exhaustive enumeration of environment answers (every prefix length x every composition into <=3/4 arrivals x '
                  'stall/close x server configuration) on the real handler over a scripted socket, plus stateless schedule '
                  'exploration (preemption bound 2) of 2-3 simultaneous connections; oracle: independent MLLP reference; socket '
                  'model validated against real loopback TCP',
        text='The real MLLPRequestHandler, driven by the real MLLPServer.process_request_thread over an in-memory socket, is run '
             'on 22 payload kinds (registered / unregistered / non-HL7 / empty / no start block / garbage before it / bytes or a '
             'second frame after the end block / undecodable / EB without CR / blank line / UTF-8 / no final CR, and 8 routing kinds: '
             'MSH-9 a string prefix of a registered key, longer than one, empty, absent, lower case) for every prefix '
             'length of the frame (client stall or early close at every byte), every cut of that prefix into at most 3 (4) '
             'arrivals (2 for the routing kinds), and with and without an ERR handler (~845,000 scripts); the scripted socket takes at most 5 bytes '
             'per send() call (short write) and everything per sendall(); 2 and 3 simultaneous connections run as threads '
             'under the baton scheduler with choice points at every library line and socket operation (all schedules with <=2, '
             'resp. <=1, preemptions), each execution on a server object of its own, from a new server and from one that has already served one '
             'connection of every kind. Handler class, text, arguments, reply bytes, exactly-once and closing are compared with a '
             'reference written from the statement; to_mllp() framing is checked for every version; 16 scripts are replayed '
             'over real TCP and must agree with the socket model.',
        note='trusted: socketserver/io/socket of CPython; the socket model (validated on 16 loopback cases, disagreement = harness error)'),
    'C17': dict(
        engine=E1, design_ref='DESIGN.md section 7 C17',
        technique='exhaustive enumeration of all 72 default configurations (12 versions x 2 levels x 3 delimiter sets, installed '
                  'through the real setters) x a corpus of explicit-argument calls for every version and level; differential '
                  'oracle against the baseline configuration; default-getter call sites recorded',
        text='Per explicit (version, level): ~150 calls (every parse_* entry point with standard and custom delimiters, Message / '
             'Group / Segment / Field / Component / SubComponent constructors, traversal writes inside a Message, to_er7 / to_mllp '
             '/ validate, add_subcomponent for every base datatype name of any version, datatype_factory and leaf parsing with '
             'valid / invalid / over-long / invalid-and-over-long values per base datatype) are evaluated under each of the 72 '
             'configurations and must give the same ER7 text, exception class, recursive listing and validation report as under '
             'the configuration that agrees with the explicit arguments (~250,000 evaluations); messages built under one '
             'configuration are re-observed after switching to others.',
        note='trusted: differential oracle only (no reference values); calls on parentless elements without an encoding-chars argument are outside the statement'),
    'C18': dict(
        engine=E1, design_ref='DESIGN.md section 7 C18',
        technique='exhaustive enumeration of synthesised message profiles (identity + one edit per child site: max->1, min->1, removed '
                  'child; per leaf field: datatype swap) x creation paths on the real API; differential oracle against the no-profile run',
        text='All structures of 2.5 and every third structure of the other versions (thorough: all): the identity profile must leave '
             'building through the API, parsing and validation identical to the no-profile run; each single edit at each child of the '
             'message and of its groups (~13,800 edited profiles in quick) must show in validate() of the profile run only (error '
             'naming the child) and in STRICT construction (the forbidden child is refused); for an optional child made required inside '
             'nested groups a text with every group on the path twice is parsed with the profile: every instance lacking the child '
             'is reported, by the message and by each group instance validated on its own. For every segment of 2.5 (thorough: all '
             'versions) each ST/NM/ID/IS/SI leaf field gets its datatype swapped in the profile; the child created by traversal '
             'read, traversal write, add_* helpers, parse_message(message_profile=), text assignment and assignment of an element '
             'copied from a message built without the profile must carry the profile datatype (also one level down: a subcomponent datatype swapped below a complex component, and the positional path under a component whose datatype the profile changed); '
             'a stand-alone segment added to a message with a profile is validated by the profile; and a STRICT parse must refuse a value only valid for the standard datatype. Shipped ITI-21 profile, a '
             'profile lacking the structure (MessageProfileNotFound) and the legacy files (LegacyMessageProfile) are checked.',
        note='trusted: profile synthesiser (same tuple shape as the shipped profile); children listed twice in a structure (D12) are blocked'),
    'C19': dict(
        engine=E3, design_ref='DESIGN.md section 7 C19, section 3.3',
        technique='stateless model checking of the implementation: real threads under a baton scheduler with a choice point '
                  'before every library line (sys.monitoring), iterative preemption bounding, result equality with the sequential run '
                  'plus a frame-condition audit of all process-wide library state; one thread of a harness may be atomic (no points of its own)',
        text='185 two- and three-thread harnesses over a corpus of 21 factory / build / parse / encode / validate bodies (incl. fields '
             'beyond the table of Z and varies-ended segments, a highlights list shared by the callers, a structure that lists a child name '
             'twice, a number beyond the default decimal precision, a custom-delimiter parse against a nested-group parse, a Z segment added through the child API, both threads setting the default '
             'version with calls that name their version probed after every execution) '
             '(forced collision on one version, and mixed version/level variants) are executed under every schedule with at '
             'most 2 preemptions (small x small), 1 preemption (small/medium x medium, 3 threads) and both serial orders '
             '(large bodies) in the quick tier, ~495,000 complete executions; each small and medium body is also preempted once, at each of its lines, by an '
             'atomic background body that sweeps every datatype, base datatype and segment of the other eleven versions through the public lookups '
             '(takes any bounded per-(name, version) table through its limit inside one preemption); thorough raises the bounds (small bodies: 3 preemptions at line granularity for a body with itself, 2 at bytecode '
             'granularity in the shared-state functions; 1 for large bodies at shared-touching lines). Every thread must observe '
             'exactly what the same call observes alone, and the fingerprint of every module global, module-level container and '
             'class-level data attribute of the library (and a digest of the tables) must be unchanged after every execution.',
        note='trusted: CPython (one bytecode is atomic), stdlib internals atomic, import lock; <=3 threads; preemption bounds as stated'),
    'C03': dict(
        engine=E1, design_ref='DESIGN.md section 7 C03',
        technique='exhaustive enumeration of insertion points x inserted line kinds over the required instance of every message '
                  'structure, all short words over a segment alphabet, and one excess element per level, through parse_message '
                  'with find_groups on and off; oracle: reference decoder (segment names and non-empty leaves in order)',
        text='For each of ~1,970 concrete structures of the 12 versions the required-only instance receives, at every position, a '
             'Z-segment, a segment foreign to the structure, a duplicate of the neighbour and a garbled id (Q9Q); for 3 (thorough '
             '20) structures per version all words up to length 3 (4) over {3 in-structure names, a foreign name, ZZZ} are appended '
             'to MSH; one line per level carries an element beyond the defined count (fields, components, subcomponents, '
             'components / subcomponents inside base-datatype fields, repetitions beyond the maximum) and a field of datatype varies holds '
             'components, subcomponents and repetitions with empty ones before valued ones; every line of the all-children instance '
             'is duplicated in place; for adjacent versions (both directions) a message with one field beyond the older count is '
             'parsed before the newer message that values that field and the last one; values at withdrawn field numbers (D17). Each text (~33,000 in quick) '
             'is parsed with find_groups on and off: either an HL7apyException surfaces or the encoded result has the same segment '
             'names in the same order and the same non-empty leaves per segment; both settings must agree.',
        note='trusted: reference decoder; instance generator reads the tables; structures with anomalous rows are blocked (82)'),
    'C08': dict(
        engine=E1, design_ref='DESIGN.md section 7 C08',
        technique='exhaustive enumeration of table-derived derivation trees (required / all / repeated groups to depth 3 / each '
                  'optional child alone; a Z segment after every position; a non-repeatable segment recurring inside a chain of groups) for every message structure through the real group finder; oracle: soundness against the '
                  'reference tuples, flattening, exact tree for unambiguous structures',
        text='~17,800 instances of ~1,970 structures (998 unambiguous) are parsed with find_groups=True: every element must be a '
             'declared child of its parent per the tables, flattening must give the input sequence, the encoding must equal that of '
             'find_groups=False, two parses must agree, and for structures whose segment names occur at one place the tree must be '
             'exactly the derivation tree and draw no message- or group-level validation error. The all-children instance is parsed again with one '
             'unlisted segment (ZZZ) after every position (quick: every third structure; must parse, keep the order and encode as with group-finding off) '
             'and cut after each non-repeatable segment that lies in a chain of groups with a repeatable ancestor, followed by that segment once more '
             '(also as the lean chain MSH + leading segments + S + S; ~8,400 variants whose names occur at one place): no parent may hold more children of a name than the structure allows.',
        note='trusted: instance generator and the tables; bare segment bodies; 2 known findings (D15, D16)'),
    'C04': dict(
        engine=E1, design_ref='DESIGN.md section 7 C04',
        technique='exhaustive enumeration, per message structure and per segment of every version, of the conforming instance built '
                  'through the API and of every single-point mutation of it (missing required child, max+1 copies, foreign child, '
                  'unnamed element, datatype override) through the real validator; purity / determinism / report-form oracles',
        text='For every concrete message structure (~1,970; identity message profile as reference for 2.5 and 2.7, thorough: all) '
             'and every segment definition (1,657; thorough also every complex datatype) the conforming required-only instance '
             'must validate, and each single-point mutation at every child site (~74,000 validated elements in quick; incl. two '
             'components in every base-datatype field and two subcomponents in a base-datatype component) must fail '
             'with an error text naming the mutated child (its parent for unnamed elements). On every conforming and one mutated '
             'instance per structure: encoding and recursive listing unchanged by validate(), two calls report equally, is_valid '
             '== (errors == []), the raising form raises exactly errors[0] (type and text) or returns True, and the report '
             'written to a file object and to a path consists exactly of the Error:/Warning: lines of the returned lists. The Z-segment cases of a version are repeated right after those of the adjacent version (fresh process each). A foreign child attached and removed again (remove / del / pop) leaves a conforming message. Z segments '
             'holding conforming fields of two or three different complex datatypes (adjacent pairs of the datatype list in both '
             'orders; thorough: all ordered pairs), alone and inside a conforming message, must validate, and must name the '
             'component when one required component is left out.',
        note='trusted: conforming-instance builder (tables), error-text matching by child name; 33 known findings (D12: structures listing one segment twice)'),
    'C05': dict(
        engine='E1 grid + E2 hist', design_ref='DESIGN.md section 7 C05',
        technique='exhaustive enumeration of canonical / invalid / over-long leaf texts at every leaf position parsed under both '
                  'levels, plus explicit-state breadth-first search in lock step on STRICT and TOLERANT twins of real objects; '
                  'differential oracle between the levels and the validator',
        text='For every segment of 2.5 and 2.7 and every third segment of the other versions (thorough: all): each leaf alone with its '
             'typed literal, with the invalid literal of its datatype, with a value one character over the maximum length, and the '
             'all-leaves shape (also inside a host message) are parsed under STRICT and TOLERANT (~230,000 texts): whatever STRICT '
             'accepts TOLERANT accepts with the same encoding and validation report, the validator finds nothing but missing '
             'required children on it, and STRICT refuses every invalid and over-long value - also when TOLERANT has processed the '
             'same text before in the same process - and one repetition more than every bounded maximum. Five twin roots (Segment parsed and '
             'empty, Field, Message, Group) are driven in lock step through 31 operations to depth 2 (thorough 3), including the '
             'seven kinds STRICT must refuse (cardinality overflow, foreign child, unnamed child, datatype override, datatype '
             'cleared then overridden, invalid value, over-long value) and writes through traversal proxies kept from earlier.',
        note='trusted: differential oracle only; 8 known findings (D13: STRICT groups encode in structure order)'),
    'C06': dict(
        engine=E1, design_ref='DESIGN.md section 7 C06',
        technique='bounded-exhaustive enumeration (all strings <= 5 (thorough: 6 for one class per escaping family) over the delimiter/escape alphabet x every textual '
                  'datatype class x all injective delimiter assignments over a punctuation pool) of the real encoder, '
                  'checked by a reference tokenizer',
        text='Every string up to the length bound over an alphabet that contains each delimiter, the escape character, '
             'escape letters and ordinary text is encoded by every distinct textual datatype class of the 12 versions '
             'under the default delimiter sets, and every shorter string under every injective assignment of the roles '
             'to a punctuation pool with regex-special members; each output is tokenized left to right by an independent '
             'reference (no raw delimiter, no lone escape), re-encoded (idempotence), and compared with the input when '
             'the input is already escaped; end to end, every string <= 3 is assigned as a datatype object at field, '
             'component and subcomponent level of a message with custom delimiters and the separator counts are compared, and '
             'the same segment on its own, encoded with the set passed explicitly to to_er7(), must give the same text (the set being the dictionary read from the message while another message is alive). 40 repetitions of each symbol and a 120-character cycle of the alphabet; every highlight range of every string <= 3 (4) without '
             'escape character against the encoding of its three pieces. Ordered '
             'units (fresh process each): every class after every other class, and each class under its delimiter sets in every '
             'order with strings over the union of their alphabets. '
             'Complete within the bounds; says nothing about longer strings or other characters.',
        note='trusted: CPython re/str; reference tokenizer (40 lines); alphabet represents the 8 escape letters by E F H L'),
}

_NB = 'check not built yet in this session (machinery in progress; see DESIGN.md section 7)'
NOT_APPLICABLE = {p: _NB for p in ['C%02d' % i for i in range(1, 20)] if p not in CHECKS}
