"""Per-property manifest entries.  A property moves from NOT_APPLICABLE ("not built yet") to CHECKS
when its check exists, is silent on the unchanged tree and writes valid evidence."""

E1 = 'E1 grid'
E2 = 'E2 hist'
E3 = 'E3 sched'

CHECKS = {
    'C06': dict(
        engine=E1, design_ref='DESIGN.md section 7 C06',
        technique='bounded-exhaustive enumeration (all strings <= 5/6 over the delimiter/escape alphabet x every textual '
                  'datatype class x all injective delimiter assignments over a punctuation pool) of the real encoder, '
                  'checked by a reference tokenizer',
        text='Every string up to the length bound over an alphabet that contains each delimiter, the escape character, '
             'escape letters and ordinary text is encoded by every distinct textual datatype class of the 12 versions '
             'under the default delimiter sets, and every shorter string under every injective assignment of the roles '
             'to a punctuation pool with regex-special members; each output is tokenized left to right by an independent '
             'reference (no raw delimiter, no lone escape), re-encoded (idempotence), and compared with the input when '
             'the input is already escaped; end to end, every string <= 3 is assigned as a datatype object at field, '
             'component and subcomponent level of a message with custom delimiters and the separator counts are compared. '
             'Complete within the bounds; says nothing about longer strings or other characters.',
        note='trusted: CPython re/str; reference tokenizer (40 lines); alphabet represents the 8 escape letters by E F H L'),
}

_NB = 'check not built yet in this session (machinery in progress; see DESIGN.md section 7)'
NOT_APPLICABLE = {p: _NB for p in ['C%02d' % i for i in range(1, 20)] if p not in CHECKS}
