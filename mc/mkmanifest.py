"""Regenerates /verif/MANIFEST.json from the table below (python -m mc.mkmanifest)."""
import json, os

HERE = os.path.dirname(os.path.dirname(os.path.abspath(__file__)))

CHECKS = {
    # id: (engine, technique, level text, level note, design ref)
}

NOT_BUILT = {}


def load_specs():
    from .manifest_specs import CHECKS, NOT_APPLICABLE
    return CHECKS, NOT_APPLICABLE


def main():
    checks_spec, na = load_specs()
    checks = []
    for pid in sorted(checks_spec):
        c = checks_spec[pid]
        checks.append({
            'property_id': pid,
            'quick_cmd': './check %s quick' % pid,
            'thorough_cmd': './check %s thorough' % pid,
            'evidence_file': 'evidence/%s.json' % pid,
            'replay_cmd_template': './check %s --replay {path}' % pid,
            'engine': c['engine'],
            'level_claimed': {'category': 'model_checking', 'text': c['text'], 'design_ref': c['design_ref']},
            'level_note': c['note'],
            'technique': c['technique'],
        })
    man = {
        'version': 1,
        'setup_cmd': './setup.sh',
        'hooks': {
            'guard': 'HL7APY_VERIF',
            'enable': 'no source hooks: the explorers observe the library from outside (sys.monitoring, injected '
                      'clock/socket); ./check exports HL7APY_VERIF=1 for uniformity',
            'baseline_off_cmd': 'cd /repo && /venv/bin/python -m pytest -ra -q -p no:cacheprovider --timeout=900 '
                                '--continue-on-collection-errors',
            'source_commits': [],
            'add_only': True,
        },
        'engines': [
            {'name': 'E1 grid', 'path': 'mc/common.py', 'serves_properties': sorted(p for p in checks_spec if 'E1' in checks_spec[p]['engine']),
             'kind_free_text': 'bounded-exhaustive enumeration of inputs x configurations on the real API, sharded over a fork pool, closed-form size self-check'},
            {'name': 'E2 hist', 'path': 'mc/hist.py', 'serves_properties': sorted(p for p in checks_spec if 'E2' in checks_spec[p]['engine']),
             'kind_free_text': 'explicit-state breadth-first search over public API histories with canonical object-graph hashing'},
            {'name': 'E3 sched', 'path': 'mc/sched.py', 'serves_properties': sorted(p for p in checks_spec if 'E3' in checks_spec[p]['engine']),
             'kind_free_text': 'stateless exploration of thread schedules (sys.monitoring baton scheduler, preemption bounding) and of socket environment answers (chunkings, timeouts, EOF)'},
        ],
        'checks': checks,
        'not_applicable': [{'property_id': k, 'reason': v} for k, v in sorted(na.items())],
        'notes': 'All checks: cd /verif && ./check <ID> <quick|thorough>; exit 0 held / 1 VIOLATION / 2 harness error. '
                 'Known findings: known_findings.json. Design: DESIGN.md.',
    }
    with open(os.path.join(HERE, 'MANIFEST.json'), 'w') as f:
        json.dump(man, f, indent=1)
        f.write('\n')
    print('MANIFEST.json: %d checks, %d not_applicable' % (len(checks), len(na)))


if __name__ == '__main__':
    main()
