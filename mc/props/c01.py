"""C01 — parse -> encode is the identity on canonical ER7 text.

Engine E1.  Per (version, segment): every leaf position alone (typed literal and plain text), the
all-leaves shape with 1 and 2 repetitions, every field row through parse_field, every component row
through parse_component, the segment inside a message whose structure lists it (find_groups on and
off, default and custom delimiter sets).  Thorough adds all pairs of leaves inside one field, all
pairs of fields, three repetitions with an empty middle one, and escape-language words on textual
leaves.  Oracle: string equality with the input (the input is canonical by construction; an
independent predicate re-checks that).
"""
from __future__ import annotations

import itertools

from .. import common, refmodel, tables
from ..common import Result, VERSIONS, libs, exc_class, TOLERANT

ID = 'C01'
ENGINE = 'E1 grid'
RULE = ('points = (version, segment, shape, entry point); shapes: each leaf alone, all leaves, repetitions, (thorough) '
        'pairs and escape words; all distinct by construction; non-trivial = text has at least one separator')
ASSUMPTIONS = [
    'leaf text: one typed literal per base datatype and the letter x (thorough: escape-language words up to 3 tokens)',
    'message context: one host structure per segment; segments listed by no structure are parsed alone',
    'segments whose table row cannot be instantiated are C02 findings and are skipped here (counted as blocked)',
]

TEXTUAL = {'ST', 'FT', 'TX', 'ID', 'IS', 'GTS', 'CM', 'SNM'}


def is_canonical(text, ec):
    """Independent re-check of generated input: no leading/trailing blanks in a leaf, no trailing empty
    field / repetition / component / subcomponent, no raw escape-language violation."""
    for line in refmodel.seg_lines(text):
        name, fields = refmodel.dec_segment(line, ec)
        if fields and fields[-1] == '':
            return False
        for n, f in enumerate(fields):
            if name == 'MSH' and n < 2:
                continue
            reps = f.split(ec['REPETITION'])
            if len(reps) > 1 and reps[-1] == '':
                return False
            for r in reps:
                comps = r.split(ec['COMPONENT'])
                if len(comps) > 1 and comps[-1] == '':
                    return False
                for c in comps:
                    subs = c.split(ec['SUBCOMPONENT'])
                    if len(subs) > 1 and subs[-1] == '':
                        return False
                    for s in subs:
                        if s != s.strip():
                            return False
    return True


def lit_for(v, row):
    dt = row.datatype
    return tables.literal(dt, v) if tables.is_base(v, dt) else 'x'


def field_all_leaves(v, fr, lit=None):
    """rep structure with every leaf filled."""
    if fr.kind == 'leaf':
        return lit or lit_for(v, fr)
    rep = {}
    for cr in fr.children:
        j = tables.comp_index(cr.name)
        if cr.kind == 'leaf':
            rep[j] = lit or lit_for(v, cr)
        else:
            rep[j] = {tables.comp_index(sr.name): (lit or lit_for(v, sr)) for sr in cr.children}
    return rep


def usable_rows(v, seg):
    return [(i, fr) for i, fr in tables.field_rows(v, seg) if i is not None and fr.ok and not (seg == 'MSH' and i <= 2)]


MSH_BODY = {3: ['A'], 4: ['B'], 5: ['C'], 6: ['D'], 10: ['1'], 11: ['P']}


def msh_fields(v, structure):
    f = dict(MSH_BODY)
    rows = dict(tables.field_rows(v, 'MSH'))
    f[7] = ['20200229' if rows[7].kind == 'leaf' else {1: '20200229'}]
    a, b = structure.split('_', 1) if '_' in structure else (structure, '')
    ncomp = len(rows[9].children)
    f[9] = [{1: a, 2: b, 3: structure}] if ncomp >= 3 else [{1: a, 2: b}]
    f[12] = [v if rows[12].kind == 'leaf' else {1: v}]
    return f


_HOST = {}


def host_structure(v, seg):
    """A concrete message structure of the version that lists seg (top level or in any nested group)."""
    if v not in _HOST:
        m = {}

        def walk(ref, acc):
            for c in ref[1]:
                if c[3] == 'SEG':
                    acc.add(c[0])
                elif c[3] == 'GRP' and c[1] is not None:
                    walk(c[1], acc)
        for name in tables.concrete_message_names(v):
            acc = set()
            try:
                walk(tables.msg_ref(v, name), acc)
            except Exception:
                continue
            for s in acc:
                m.setdefault(s, name)
        _HOST[v] = m
    return _HOST[v].get(seg)


def diff_field(a, b, ec):
    """first differing field number between two segment lines (reference decoder)."""
    na, fa = refmodel.dec_segment(a, ec)
    nb, fb = refmodel.dec_segment(b, ec)
    for i in range(max(len(fa), len(fb))):
        x = fa[i] if i < len(fa) else None
        y = fb[i] if i < len(fb) else None
        if x != y:
            return i + 1
    return 0


def anomaly_key(v, seg):
    """If the segment's table rows are themselves inconsistent (C02 findings D1/D3), every mismatch on it is
    keyed by that root cause: one key per (version, segment)."""
    if tables.has_gap(v, seg):
        return 'gap|%s|%s' % (v, seg)
    an = tables.row_anomalies(v, seg)
    if an:
        return 'row-anomaly|%s|%s|%s' % (v, seg, ','.join('%s:%s' % (k, an[k]) for k in sorted(an, key=str)))
    return None


def check_segment_text(res, v, seg, text, shape, ec=None, rank=0):
    from hl7apy.parser import parse_segment
    ecx = ec or refmodel.default_ec(v)
    if not is_canonical(text, ecx):
        raise common.HarnessError('generator produced non-canonical text %r' % text)
    res.evaluations += 1
    res.transitions += 2
    res.enumerated += 1
    if ecx['FIELD'] in text[3:]:
        res.nontrivial += 1
    point = {'kind': 'seg', 'v': v, 'seg': seg, 'text': text, 'ec': ec, 'shape': shape}
    try:
        s = parse_segment(text, version=v, encoding_chars=ec, validation_level=TOLERANT) if ec else \
            parse_segment(text, version=v, validation_level=TOLERANT)
        out = s.to_er7(ec) if ec else s.to_er7()
    except Exception as e:
        res.violation(anomaly_key(v, seg) or 'raises|%s|%s|parse_segment|%s|%s' % (v, seg, shape, exc_class(e)),
                      'parse_segment(%r) raises %s: %s' % (text, exc_class(e), e), point, rank)
        res.classes['raises'] += 1
        return False
    res.validated += 1
    if out != text:
        d = diff_field(text, out, ecx)
        key = anomaly_key(v, seg) or 'differs|%s|%s|parse_segment|%s|field%d' % (v, seg, shape, d)
        res.violation(key, 'parse_segment(%r).to_er7() = %r' % (text, out), point, rank)
        res.classes['differs'] += 1
        return False
    res.classes['identity'] += 1
    return True


def seg_unit(v, seg, tier, res):
    from hl7apy.parser import parse_field, parse_component, parse_message
    from hl7apy.core import Segment
    ec = refmodel.default_ec(v)
    ec_n = dict(ec)
    ec_n.pop('TRUNCATION', None)
    if tables.segment_anomaly(v, seg) or seg == 'ANYHL7SEGMENT':
        res.blocked['uninstantiable segment (C02 finding)'] += 1
        return
    try:
        Segment(seg, version=v)
    except Exception:
        res.blocked['uninstantiable segment (C02 finding)'] += 1
        return
    rows = usable_rows(v, seg)
    res.states += 1
    prefix = {1: ['|'], 2: ['^~\\&']} if seg == 'MSH' else {}

    def segtext(fields):
        if seg == 'MSH':
            return refmodel.enc_segment('MSH', dict(fields), ec_n)
        return refmodel.enc_segment(seg, fields, ec_n)

    # (a) every leaf alone: typed literal and plain x
    for idx, fr in rows:
        if fr.kind == 'leaf':
            leaves = [(None, None, fr)]
        else:
            leaves = []
            for cr in fr.children:
                j = tables.comp_index(cr.name)
                if cr.kind == 'leaf':
                    leaves.append((j, None, cr))
                else:
                    leaves.extend((j, tables.comp_index(sr.name), sr) for sr in cr.children)
        for j, k, leaf in leaves:
            lits = {lit_for(v, leaf), 'x'}
            for lit in sorted(lits):
                rep = lit if j is None else {j: (lit if k is None else {k: lit})}
                check_segment_text(res, v, seg, segtext({idx: [rep]}), 'leaf-alone', rank=1)
    # (b) all leaves, 1 and 2 repetitions (3 with an empty middle one in thorough)
    allf = {idx: [field_all_leaves(v, fr)] for idx, fr in rows}
    full = segtext(allf)
    check_segment_text(res, v, seg, full, 'all-leaves', rank=2)
    if seg != 'MSH':
        all2 = {idx: [field_all_leaves(v, fr), field_all_leaves(v, fr, 'y')] for idx, fr in rows}
        check_segment_text(res, v, seg, segtext(all2), 'all-leaves-2reps', rank=3)
        all3 = {idx: [field_all_leaves(v, fr), '', field_all_leaves(v, fr, 'y')] for idx, fr in rows}
        check_segment_text(res, v, seg, segtext(all3), 'all-leaves-3reps-empty-middle', rank=3)
        for idx, fr in rows[:2]:
            check_segment_text(res, v, seg, segtext({idx: ['', field_all_leaves(v, fr)]}), 'empty-first-repetition', rank=3)
    # fields of type varies accept any component structure
    for idx, fr in rows:
        if fr.kind == 'leaf' and fr.datatype == 'varies':
            for shape, rep in (('varies-2comp', {1: 'a', 2: 'b'}), ('varies-empty-middle', {1: 'a', 3: 'c'}), ('varies-empty-first', {2: 'b'}),
                               ('varies-sub', {1: {1: 'a', 2: 'b'}, 2: 'c'}), ('varies-empty-first-sub', {2: {2: 's'}}),
                               ('varies-12comp', {j: 'c%d' % j for j in range(1, 13) if j != 3}),
                               ('varies-11sub', {1: 'a', 2: {k: 's%d' % k for k in range(1, 12) if k != 4}})):
                check_segment_text(res, v, seg, segtext({idx: [rep]}), shape, rank=3)
                check_segment_text(res, v, seg, segtext({idx: [rep, rep]}), shape + '-2reps', rank=3)
    # (c) field and component entry points
    for idx, fr in rows:
        ftext = refmodel.enc_rep(field_all_leaves(v, fr), ec_n)
        res.evaluations += 1
        res.transitions += 2
        res.enumerated += 1
        point = {'kind': 'field', 'v': v, 'seg': seg, 'name': fr.name, 'text': ftext}
        try:
            out = parse_field(ftext, name=fr.name, version=v, validation_level=TOLERANT).to_er7()
        except Exception as e:
            res.violation(anomaly_key(v, seg) or 'raises|%s|%s|parse_field|%d|%s' % (v, seg, idx, exc_class(e)),
                          'parse_field(%r, %r) raises %s: %s' % (ftext, fr.name, exc_class(e), e), point, 2)
        else:
            res.validated += 1
            if out != ftext:
                res.violation(anomaly_key(v, seg) or 'differs|%s|%s|parse_field|%d' % (v, seg, idx), 'parse_field(%r, %r).to_er7() = %r' % (ftext, fr.name, out), point, 2)
                res.classes['differs'] += 1
            else:
                res.classes['identity'] += 1
        if fr.kind != 'leaf':
            for cr in fr.children:
                ctext = lit_for(v, cr) if cr.kind == 'leaf' else refmodel.enc_component(
                    {tables.comp_index(sr.name): lit_for(v, sr) for sr in cr.children}, ec_n)
                for form in ('name-only', 'datatype-None'):
                    res.evaluations += 1
                    res.transitions += 2
                    res.enumerated += 1
                    point = {'kind': 'comp', 'v': v, 'seg': seg, 'name': cr.name, 'text': ctext, 'form': form}
                    try:
                        if form == 'name-only':
                            c = parse_component(ctext, name=cr.name, version=v, validation_level=TOLERANT)
                        else:
                            c = parse_component(ctext, name=cr.name, datatype=None, version=v, validation_level=TOLERANT)
                        out = c.to_er7()
                    except Exception as e:
                        res.violation(anomaly_key(v, seg) or 'raises|%s|%s|parse_component|%s|%s|%s' % (v, seg, cr.name, form, exc_class(e)),
                                      'parse_component(%r, %r) raises %s: %s' % (ctext, cr.name, exc_class(e), e), point, 2)
                        continue
                    res.validated += 1
                    if out != ctext:
                        res.violation(anomaly_key(v, seg) or 'differs|%s|%s|parse_component|%s|%s' % (v, seg, cr.name, form),
                                      'parse_component(%r, %r).to_er7() = %r' % (ctext, cr.name, out), point, 2)
                        res.classes['differs'] += 1
                    else:
                        res.classes['identity'] += 1
    # (d) message context, find_groups on/off, default and custom delimiters
    if seg != 'MSH':
        host = host_structure(v, seg)
        if host is None:
            res.dims['segments listed by no concrete structure'] += 1
        else:
            # plus one set that differs from the default one in a single role (rotating over the segments): the header and
            # the rest of the message must not take a standard-looking MSH-2 (or MSH-1) as "all standard"
            one = ONE_ROLE_SETS[sum(map(ord, seg)) % len(ONE_ROLE_SETS)]
            sets = [None] + CUSTOM_SETS + [one]
            for cset in sets:
                e = dict(ec_n) if cset is None else dict(cset, SEGMENT='\r', GROUP='\r')
                text = refmodel.enc_message([('MSH', msh_fields(v, host)), (seg, allf)], e)
                for fg in (True, False):
                    check_message_text(res, v, seg, host, text, e, fg, 'all-leaves')
    else:
        # MSH inside its own message for every delimiter set above
        for name in ('ACK',):
            text = refmodel.enc_message([('MSH', dict(allf))], ec_n)
            # MSH-9 / MSH-12 must carry the structure and the version for parse_message
            f = dict(allf)
            f.update({9: msh_fields(v, name)[9], 12: msh_fields(v, name)[12]})
            text = refmodel.enc_message([('MSH', f)], ec_n)
            for fg in (True, False):
                check_message_text(res, v, 'MSH', name, text, ec_n, fg, 'all-leaves-msh')
    for text in escape_texts(v, seg):
        check_segment_text(res, v, seg, text, 'escape-word', rank=3)
        hostn = host_structure(v, seg) if seg != 'MSH' else None
        if hostn and v >= '2.7':
            ec4 = dict(refmodel.DEFAULT_EC)
            check_message_text(res, v, seg, hostn, refmodel.enc_message([('MSH', msh_fields(v, hostn))], ec4) + '\r' + text, ec4, True, 'escape-word')
    if tier == 'thorough':
        thorough_extra(res, v, seg, rows, segtext)
    res.sample({'v': v, 'segment': seg, 'all_leaves_text': full[:200]}, cap=4)


def check_message_text(res, v, seg, host, text, ec, fg, shape):
    from hl7apy.parser import parse_message
    if not is_canonical(text, ec):
        raise common.HarnessError('generator produced non-canonical message %r' % text)
    res.evaluations += 1
    res.transitions += 2
    res.enumerated += 1
    res.nontrivial += 1
    point = {'kind': 'msg', 'v': v, 'seg': seg, 'host': host, 'text': text, 'fg': fg}
    custom = 'custom' if ec['FIELD'] != '|' else 'default'
    try:
        m = parse_message(text, validation_level=TOLERANT, find_groups=fg)
        out = m.to_er7()
    except Exception as e:
        res.violation(anomaly_key(v, seg) or 'raises|%s|%s|parse_message|%s|fg=%s|%s' % (v, seg, custom, fg, exc_class(e)),
                      'parse_message raises %s: %s on %r' % (exc_class(e), e, text), point, 4)
        res.classes['raises'] += 1
        return
    res.validated += 1
    if out != text:
        key = anomaly_key(v, seg) or 'differs|%s|%s|parse_message|%s|fg=%s' % (v, seg, custom, fg)
        res.violation(key, 'parse_message(%r, find_groups=%s).to_er7() = %r' % (text, fg, out), point, 4)
        res.classes['differs'] += 1
    else:
        res.classes['identity'] += 1


# custom delimiter sets: disjoint from every character used by the literals (digits . + - ( ) letters)
CUSTOM_SETS = [{'FIELD': '!', 'COMPONENT': '$', 'SUBCOMPONENT': '*', 'REPETITION': '?', 'ESCAPE': '@'},
               {'FIELD': ':', 'COMPONENT': '[', 'SUBCOMPONENT': ']', 'REPETITION': '{', 'ESCAPE': '^'}]

_DEF = {'FIELD': '|', 'COMPONENT': '^', 'SUBCOMPONENT': '&', 'REPETITION': '~', 'ESCAPE': '\\'}
ONE_ROLE_SETS = [dict(_DEF, **{role: ch}) for role, ch in (('FIELD', '!'), ('COMPONENT', '$'), ('SUBCOMPONENT', '*'), ('REPETITION', '?'), ('ESCAPE', '@'))]

ESC_TOKENS = ['a', '\\F\\', '\\E\\', '\\H\\', '\\R\\']


def thorough_extra(res, v, seg, rows, segtext):
    # all pairs of leaves inside one field
    for idx, fr in rows:
        if fr.kind == 'leaf':
            continue
        leaves = []
        for cr in fr.children:
            j = tables.comp_index(cr.name)
            if cr.kind == 'leaf':
                leaves.append((j, None, cr))
            else:
                leaves.extend((j, tables.comp_index(sr.name), sr) for sr in cr.children)
        for (j1, k1, l1), (j2, k2, l2) in itertools.combinations(leaves, 2):
            rep = {}
            for j, k, l in ((j1, k1, l1), (j2, k2, l2)):
                if k is None:
                    rep[j] = lit_for(v, l)
                else:
                    rep.setdefault(j, {})[k] = lit_for(v, l)
            check_segment_text(res, v, seg, segtext({idx: [rep]}), 'leaf-pair', rank=2)
    # all pairs of fields (all-leaves shape each)
    for (i1, f1), (i2, f2) in itertools.combinations(rows, 2):
        check_segment_text(res, v, seg, segtext({i1: [field_all_leaves(v, f1)], i2: [field_all_leaves(v, f2)]}),
                           'field-pair', rank=2)
    # escape-language words (<= 3 tokens) on the first textual leaf of every field
    letters = ESC_TOKENS + (['\\L\\'] if v >= '2.7' else [])
    words = [''.join(t) for n in (1, 2, 3) for t in itertools.product(letters, repeat=n)]
    done = 0
    for idx, fr in rows:
        target = None
        if fr.kind == 'leaf':
            if fr.datatype in TEXTUAL:
                target = (None, None)
        else:
            for cr in fr.children:
                j = tables.comp_index(cr.name)
                if cr.kind == 'leaf' and cr.datatype in TEXTUAL:
                    target = (j, None)
                    break
                for sr in cr.children:
                    if sr.datatype in TEXTUAL:
                        target = (j, tables.comp_index(sr.name))
                        break
                if target:
                    break
        if target is None:
            continue
        done += 1
        if done > 3:      # three fields per segment carry the full word set; the rest carry the 1-token words
            ws = words[:len(letters)]
        else:
            ws = words
        j, k = target
        for w in ws:
            rep = w if j is None else {j: (w if k is None else {k: w})}
            check_segment_text(res, v, seg, segtext({idx: [rep]}), 'escape-word', rank=3)


def first_text_leaf(v, seg):
    for idx, fr in usable_rows(v, seg):
        if fr.kind == 'leaf':
            if fr.datatype in TEXTUAL:
                return idx, None, None
        else:
            for cr in fr.children:
                j = tables.comp_index(cr.name)
                if cr.kind == 'leaf' and cr.datatype in TEXTUAL:
                    return idx, j, None
                for sr in cr.children:
                    if sr.datatype in TEXTUAL:
                        return idx, j, tables.comp_index(sr.name)
    return None


def escape_texts(v, seg):
    """segment texts whose first textual leaf carries an escape-language word"""
    t = first_text_leaf(v, seg)
    if t is None:
        return []
    idx, j, k = t
    ec = refmodel.default_ec(v)
    ec.pop('TRUNCATION', None)
    words = ['\\F\\', 'a\\E\\b', '\\S\\\\T\\', '\\H\\x\\N\\', '\\R\\'] + (['\\L\\', 'a\\L\\b'] if v >= '2.7' else [])
    out = []
    for w in words:
        rep = w if j is None else {j: (w if k is None else {k: w})}
        out.append(refmodel.enc_segment(seg, {idx: [rep]}, ec))
    return out


def cross_unit(va, vb, res):
    """order dependence across versions: escape-language leaves of version vb right after the same texts were
    parsed and encoded in version va, in one (fresh) process"""
    from hl7apy.parser import parse_segment
    for seg in ('PID', 'NTE', 'OBX'):
        if seg not in common.libs()[va].SEGMENTS or seg not in common.libs()[vb].SEGMENTS:
            continue
        for text in escape_texts(va, seg):
            try:
                parse_segment(text, version=va, validation_level=TOLERANT).to_er7()
            except Exception:
                pass
        for text in escape_texts(vb, seg):
            check_segment_text(res, vb, seg, text, 'escape-word-after-v%s' % va, rank=3)
            # the same leaf inside a message whose MSH-2 has four characters (from 2.7 the delimiter set of a message
            # may or may not carry the truncation character)
            hostn = host_structure(vb, seg)
            if hostn:
                ec4 = dict(refmodel.DEFAULT_EC)
                mtext = refmodel.enc_message([('MSH', msh_fields(vb, hostn))], ec4) + '\r' + text
                check_message_text(res, vb, seg, hostn, mtext, ec4, True, 'escape-word-after-v%s' % va)
    res.dims['cross-version pairs'] += 1


def units(tier):
    us = [(v, seg) for v in VERSIONS for seg in tables.segment_names(v)]
    us += [('cross', a, b) for a in VERSIONS for b in VERSIONS if a != b]
    return us


def run_unit(unit, tier):
    res = Result()
    if unit[0] == 'cross':
        cross_unit(unit[1], unit[2], res)
        res.states = res.enumerated
        return res
    seg_unit(unit[0], unit[1], tier, res)
    res.states = res.enumerated
    return res


def run(tier, seed, extra):
    us = common.rotate(units(tier), seed)
    extra['bounds'] = {'leaves_filled': 'each alone + all' if tier == 'quick' else 'each alone + all pairs in a field + all',
                       'repetitions': 3,
                       'escape_words_tokens': 0 if tier == 'quick' else 3}
    return common.run_units(run_unit, us, tier)


def replay(point, res):
    v, seg = point['v'], point['seg']
    if point['kind'] == 'seg':
        check_segment_text(res, v, seg, point['text'], point['shape'], point.get('ec'))
    else:
        # field / component / message points are re-run through their segment unit (quick tier shapes)
        seg_unit(v, seg, 'quick', res)
