"""C02 — every defined position is encoded at, and parsed from, its own index.

Engine E1.  Enumerated completely: every (version, segment, field) row, every
(version, segment, field, component, subcomponent) leaf, every (version, complex datatype,
component, subcomponent) through a Z-field scaffold, every base datatype, Z-segments and
varies-ended segments over indices 1..N (single, ordered pairs, assign-then-delete).
Oracle: reference ER7 encoding of "this value at (i,j,k), nothing else" (string equality), then
parse of that text and lookup under the same name.
"""
from __future__ import annotations

from .. import common, refmodel, tables
from ..common import Result, VERSIONS, libs, is_lib_exc, exc_class

ID = 'C02'
ENGINE = 'E1 grid'
RULE = ('one point per table row: (version, segment, field) and (version, segment, field, component, subcomponent) and '
        '(version, datatype, component, subcomponent) and open-ended (segment, index / index pair); every point is '
        'distinct by construction; non-trivial = the position is not the first field (i>1 or j>1 or k>1)')
ASSUMPTIONS = [
    'the per-version tables are the definition of positions (field number = the number in the field name)',
    'one literal per declared base datatype (plus x); open-ended indices up to the stated bound',
    'reference encoder: join/split on delimiters, trailing empties trimmed',
]

EC = refmodel.DEFAULT_EC


def ec_for(v):
    return refmodel.default_ec(v)


def build_segment(v, seg):
    from hl7apy.core import Segment
    s = Segment(seg, version=v)
    if seg == 'MSH':
        s.msh_1 = '|'
        s.msh_2 = '^~\\&'
    return s


def expected_text(v, seg, idx, rep):
    ec = ec_for(v)
    ec.pop('TRUNCATION', None)
    return refmodel.enc_segment(seg, {idx: [rep]}, ec)


def observed_field_index(text, lit, v):
    """1-based field number where lit occurs in text (reference decoder), or None."""
    ec = ec_for(v)
    name, fields = refmodel.dec_segment(text, ec)
    hits = [n + 1 for n, f in enumerate(fields) if lit in f and not (name == 'MSH' and n < 2)]
    return hits


def set_path(s, fr, cr=None, sr=None, lit='x'):
    if cr is None:
        setattr(s, fr.name.lower(), lit)
    elif sr is None:
        setattr(getattr(s, fr.name.lower()), cr.name.lower(), lit)
    else:
        setattr(getattr(getattr(s, fr.name.lower()), cr.name.lower()), sr.name.lower(), lit)


def get_path(p, fr, cr=None, sr=None):
    e = getattr(p, fr.name.lower())
    if len(e) != 1:
        return None
    if cr is not None:
        e = getattr(e, cr.name.lower())
        if len(e) != 1:
            return None
        if sr is not None:
            e = getattr(e, sr.name.lower())
            if len(e) != 1:
                return None
    return e[0].to_er7()


def seg_unit(v, seg, res):
    from hl7apy.parser import parse_segment
    anomaly = tables.segment_anomaly(v, seg)
    # instantiate / populate / encode / parse of the segment as a whole
    res.evaluations += 1
    res.transitions += 1
    try:
        build_segment(v, seg)
    except Exception as e:
        res.violation('uninstantiable|%s|%s|%s' % (v, seg, exc_class(e)),
                      'Segment(%r, version=%r) raises %s: %s (table row: %s)' % (seg, v, exc_class(e), e, anomaly),
                      {'kind': 'seg', 'v': v, 'seg': seg}, rank=0)
        res.classes['uninstantiable'] += 1
        res.states += 1
        return
    if anomaly:
        res.notes.append('anomalous row but instantiable: %s %s %s' % (v, seg, anomaly))
    shift = {}          # declared -> observed (field level)
    bad_fields = set()
    rows = tables.field_rows(v, seg)
    for idx, fr in rows:
        res.states += 1
        if idx is None or not fr.ok:
            res.violation('row|%s|%s|%s|%s' % (v, seg, fr.name, fr.why or 'name'), 'unusable field row %r' % (fr.name,),
                          {'kind': 'seg', 'v': v, 'seg': seg}, rank=1)
            continue
        if seg == 'MSH' and idx <= 2:
            continue
        lit = tables.literal(fr.datatype, v) if fr.kind == 'leaf' and tables.is_base(v, fr.datatype) else 'x'
        exp = expected_text(v, seg, idx, lit)
        res.evaluations += 1
        res.transitions += 4
        try:
            s = build_segment(v, seg)
            set_path(s, fr, lit=lit)
            got = s.to_er7()
        except Exception as e:
            bad_fields.add(idx)
            res.violation('field-unusable|%s|%s|%d|%s' % (v, seg, idx, exc_class(e)),
                          'assigning %s=%r raises %s: %s' % (fr.name, lit, exc_class(e), e),
                          {'kind': 'seg', 'v': v, 'seg': seg}, rank=2)
            continue
        res.validated += 1
        if idx > 1:
            res.nontrivial += 1
        if got != exp:
            bad_fields.add(idx)
            hits = observed_field_index(got, lit, v)
            shift[idx] = hits[0] if len(hits) == 1 else ('lost' if not hits else 'multi')
            res.classes['field-misplaced'] += 1
            continue
        # parse the reference text and look the child up under the same name
        try:
            p = parse_segment(exp, version=v)
            back = get_path(p, fr)
            again = p.to_er7()
        except Exception as e:
            bad_fields.add(idx)
            res.violation('field-unparsable|%s|%s|%d|%s' % (v, seg, idx, exc_class(e)),
                          'parse_segment(%r) / lookup raises %s: %s' % (exp, exc_class(e), e),
                          {'kind': 'seg', 'v': v, 'seg': seg}, rank=2)
            continue
        if back != lit or again != exp:
            bad_fields.add(idx)
            shift[idx] = 'parse:%s' % ('absent' if back is None else 'other')
            res.classes['field-misparsed'] += 1
        else:
            res.classes['field-ok'] += 1
    if shift:
        m = ','.join('%d>%s' % (k, shift[k]) for k in sorted(shift))
        gap = tables.has_gap(v, seg)
        res.violation('shift|%s|%s|%s' % (v, seg, m),
                      'fields of %s (v%s) encode/parse at another index than their number (declared>observed): %s%s'
                      % (seg, v, m, '; the table omits field numbers' if gap else ''),
                      {'kind': 'seg', 'v': v, 'seg': seg}, rank=1)
    # leaves
    leaf_bad = {}
    for idx, fr in rows:
        if idx is None or not fr.ok or (seg == 'MSH' and idx <= 2) or fr.kind == 'leaf':
            continue
        for cr in fr.children:
            subs = cr.children if cr.kind != 'leaf' else [None]
            for sr in subs:
                res.states += 1
                j = tables.comp_index(cr.name)
                k = tables.comp_index(sr.name) if sr is not None else None
                leaf = sr if sr is not None else cr
                if idx in bad_fields:
                    res.blocked['leaf under misplaced field'] += 1
                    continue
                dt = leaf.datatype
                lit = tables.literal(dt, v) if tables.is_base(v, dt) else 'x'
                rep = {j: ({k: lit} if k is not None else lit)}
                exp = expected_text(v, seg, idx, rep)
                res.evaluations += 1
                res.transitions += 4
                where = '%d.%d%s' % (idx, j, '.%d' % k if k else '')
                try:
                    s = build_segment(v, seg)
                    set_path(s, fr, cr, sr, lit)
                    got = s.to_er7()
                    p = parse_segment(exp, version=v)
                    back = get_path(p, fr, cr, sr)
                    again = p.to_er7()
                except Exception as e:
                    leaf_bad[where] = exc_class(e)
                    continue
                res.validated += 1
                res.nontrivial += 1
                if got != exp:
                    leaf_bad[where] = 'encoded:%r' % got[len(seg):][:40]
                elif back != lit:
                    leaf_bad[where] = 'parsed:%s' % ('absent' if back is None else repr(back)[:30])
                elif again != exp:
                    leaf_bad[where] = 'reencoded:%r' % again[len(seg):][:40]
                else:
                    res.classes['leaf-ok'] += 1
    # group leaf failures per field (one key per field, carrying its failing leaves)
    byfield = {}
    for where, why in leaf_bad.items():
        byfield.setdefault(where.split('.')[0], []).append('%s=%s' % (where, why))
    for f, items in byfield.items():
        items.sort()
        res.classes['leaf-bad'] += len(items)
        res.violation('leaf|%s|%s|%s|%s' % (v, seg, f, common.sha(items)),
                      'leaf positions of %s_%s (v%s) not encoded/parsed at their own index: %s' % (seg, f, v, '; '.join(items)[:400]),
                      {'kind': 'seg', 'v': v, 'seg': seg}, rank=3)
    res.sample({'v': v, 'segment': seg, 'fields': len(rows)}, cap=3)


# -------------------------------------------------------------------------------- datatypes

def dt_unit(v, res):
    from hl7apy.core import Field
    from hl7apy.parser import parse_field
    ec = ec_for(v)
    lib = libs()[v]
    for dt in tables.complex_datatypes(v):
        res.states += 1
        res.evaluations += 1
        res.transitions += 1
        try:
            Field('ZZZ_1', datatype=dt, version=v)
        except Exception as e:
            res.violation('dt-uninstantiable|%s|%s|%s' % (v, dt, exc_class(e)),
                          "Field('ZZZ_1', datatype=%r, version=%r) raises %s: %s" % (dt, v, exc_class(e), e),
                          {'kind': 'dt', 'v': v}, rank=0)
            continue
        bad = []
        for cr in tables.datatype_rows(v, dt):
            subs = cr.children if cr.kind != 'leaf' else [None]
            for sr in subs:
                res.states += 1
                j = tables.comp_index(cr.name)
                k = tables.comp_index(sr.name) if sr is not None else None
                leaf = sr if sr is not None else cr
                lit = tables.literal(leaf.datatype, v) if tables.is_base(v, leaf.datatype) else 'x'
                rep = {j: ({k: lit} if k is not None else lit)}
                exp = refmodel.enc_rep(rep, ec)
                where = '%d%s' % (j, '.%d' % k if k else '')
                res.evaluations += 1
                res.transitions += 4
                try:
                    f = Field('ZZZ_1', datatype=dt, version=v)
                    if sr is None:
                        setattr(f, cr.name.lower(), lit)
                    else:
                        setattr(getattr(f, cr.name.lower()), sr.name.lower(), lit)
                    got = f.to_er7()
                    f2 = Field('ZZZ_1', datatype=dt, version=v)
                    f2.value = exp
                    e = getattr(f2, cr.name.lower())
                    if sr is not None and len(e) == 1:
                        e = getattr(e, sr.name.lower())
                    back = e[0].to_er7() if len(e) == 1 else None
                    again = f2.to_er7()
                except Exception as e:
                    bad.append('%s=%s' % (where, exc_class(e)))
                    continue
                res.validated += 1
                res.nontrivial += 1
                if got != exp:
                    bad.append('%s=encoded:%r' % (where, got[:30]))
                elif back != lit:
                    bad.append('%s=parsed:%r' % (where, back))
                elif again != exp:
                    bad.append('%s=reencoded:%r' % (where, again[:30]))
                else:
                    res.classes['dt-leaf-ok'] += 1
        if bad:
            res.classes['dt-leaf-bad'] += len(bad)
            res.violation('dt-leaf|%s|%s|%s' % (v, dt, common.sha(bad)),
                          'components of datatype %s (v%s) not at their own index: %s' % (dt, v, '; '.join(bad)[:400]),
                          {'kind': 'dt', 'v': v}, rank=3)
    # every base datatype: instantiate, populate, encode, parse
    for bdt in sorted(lib.BASE_DATATYPES):
        res.states += 1
        res.evaluations += 1
        res.transitions += 3
        lit = tables.literal(bdt, v)
        try:
            f = Field('ZZZ_1', datatype=bdt, version=v)
            f.value = lit
            got = f.to_er7()
            back = parse_field(lit, 'ZZZ_1', version=v).to_er7()
        except Exception as e:
            res.violation('base-dt-unusable|%s|%s|%s' % (v, bdt, exc_class(e)), 'base datatype %s of v%s: %s: %s' % (bdt, v, exc_class(e), e),
                          {'kind': 'dt', 'v': v}, rank=0)
            continue
        res.validated += 1
        if got != lit or back != lit:
            res.violation('base-dt-text|%s|%s' % (v, bdt), 'base datatype %s of v%s: %r encodes as %r / parses to %r' % (bdt, v, lit, got, back),
                          {'kind': 'dt', 'v': v}, rank=0)
        else:
            res.classes['base-dt-ok'] += 1
    res.sample({'v': v, 'complex_datatypes': len(tables.complex_datatypes(v))}, cap=2)


# -------------------------------------------------------------------------------- open-ended segments

def varies_ended(v):
    out = []
    for seg in tables.segment_names(v):
        rows = tables.field_rows(v, seg)
        if rows and rows[-1][1].datatype == 'varies' and rows[-1][0] is not None:
            out.append((seg, rows[-1][0]))
    return out


def open_unit(v, seg, last, N, res):
    """seg: a Z-segment name (last=0) or a varies-ended segment (last = its last declared index)."""
    from hl7apy.core import Segment
    from hl7apy.parser import parse_segment
    ec = ec_for(v)
    ec.pop('TRUNCATION', None)

    def name(i):
        return '%s_%d' % (seg.lower(), i)

    def check(fields, got, what, point_rank):
        exp = refmodel.enc_segment(seg, {i: [val] for i, val in fields.items()}, ec)
        res.validated += 1
        if got != exp:
            res.violation('open|%s|%s|%s' % (seg if last else 'Z', what, 'v>=2.7' if v >= '2.7' else 'v<2.7'),
                          '%s (v%s) %s: expected %r got %r' % (seg, v, what, exp, got), {'kind': 'open', 'v': v, 'seg': seg, 'last': last, 'N': N},
                          rank=point_rank)
            res.classes['open-bad'] += 1
            return False
        res.classes['open-ok'] += 1
        return True

    lo = last + 1
    for i in range(lo, lo + N):
        res.states += 1
        res.evaluations += 1
        res.transitions += 4
        s = Segment(seg, version=v)
        setattr(s, name(i), 'x')
        got = s.to_er7()
        if not check({i: 'x'}, got, 'single-index', i):
            continue
        p = parse_segment(got, version=v)
        e = getattr(p, name(i))
        res.validated += 1
        if len(e) != 1 or e[0].to_er7() != 'x' or p.to_er7() != got:
            res.violation('open|%s|parse|%s' % (seg if last else 'Z', 'v>=2.7' if v >= '2.7' else 'v<2.7'),
                          '%s (v%s): parse of %r does not yield %s=x' % (seg, v, got, name(i)),
                          {'kind': 'open', 'v': v, 'seg': seg, 'last': last, 'N': N}, rank=i)
        res.nontrivial += 1
    P = min(12, N)
    for a in range(lo, lo + P):
        for b in range(lo, lo + P):
            if a == b:
                continue
            res.states += 1
            res.evaluations += 2
            res.transitions += 6
            s = Segment(seg, version=v)
            setattr(s, name(a), 'a')
            setattr(s, name(b), 'b')
            check({a: 'a', b: 'b'}, s.to_er7(), 'index-pair', a + b)
            # assign then delete the second: only the first remains
            delattr(s, name(b))
            check({a: 'a'}, s.to_er7(), 'assign-then-delete', a + b)
            res.nontrivial += 1
    res.sample({'v': v, 'open_segment': seg, 'indices': [lo, lo + N - 1]}, cap=2)


# -------------------------------------------------------------------------------- driver

def xver_unit(va, vb, res):
    """positions do not depend on which version of a segment was used first in the process: every segment of vb that va
    also defines is built and encoded in va, then its first and last field of vb are assigned by name and must be encoded
    at their own numbers and parsed back under their own names"""
    from hl7apy.core import Segment
    from hl7apy.parser import parse_segment
    ec = refmodel.default_ec(vb)
    la = common.libs()[va]
    for seg in tables.segment_names(vb):
        if seg == 'MSH' or seg not in la.SEGMENTS or tables.segment_anomaly(va, seg) or tables.segment_anomaly(vb, seg):
            continue
        rows_a = [(i, fr) for i, fr in tables.field_rows(va, seg) if i and fr.ok]
        rows_b = [(i, fr) for i, fr in tables.field_rows(vb, seg) if i and fr.ok]
        if not rows_a or not rows_b:
            continue
        try:
            sa = Segment(seg, version=va)
            for i, fr in (rows_a[0], rows_a[-1]):
                setattr(sa, fr.name.lower(), 'x')
            sa.to_er7()
        except Exception:
            pass
        for i, fr in (rows_b[0], rows_b[-1], rows_b[len(rows_b) // 2]):
            res.states += 1
            res.evaluations += 1
            res.transitions += 3
            point = {'kind': 'xver', 'va': va, 'vb': vb}
            val = tables.literal(fr.datatype, vb) if fr.kind == 'leaf' and tables.is_base(vb, fr.datatype) else 'x'
            want = refmodel.enc_segment(seg, {i: [val]}, ec)
            try:
                sb = Segment(seg, version=vb)
                setattr(sb, fr.name.lower(), val)
                got = sb.to_er7()
                back = [c.name for c in parse_segment(want, version=vb).children if c.to_er7() != '']
            except Exception as e:
                res.violation('order-dependence|raises|%s' % exc_class(e), '%s of v%s after the same segment was used in v%s: %s: %s' % (fr.name, vb, va, exc_class(e), e), point, 2)
                continue
            res.validated += 1
            if got != want or back != [fr.name]:
                res.violation('order-dependence|position|after-other-version', '%s of v%s after %s was built and encoded in v%s: encodes %r (expected %r), the expected text '
                              'parses to %r' % (fr.name, vb, seg, va, got, want, back), point, 2)
            else:
                res.classes['position-kept-after-other-version'] += 1
    res.dims['cross-version pairs'] += 1


def units(tier):
    N = 64 if tier == 'quick' else 512
    us = []
    for a, b in zip(VERSIONS, VERSIONS[1:]):
        us.append(('xver', a, b))
        us.append(('xver', b, a))
    for v in VERSIONS:
        for seg in tables.segment_names(v):
            us.append(('seg', v, seg))
        us.append(('dt', v))
        us.append(('open', v, 'ZZZ', 0, N))
        us.append(('open', v, 'Z1A', 0, min(N, 64)))
        for seg, last in varies_ended(v):
            us.append(('open', v, seg, last, N))
    return us


def run_unit(unit, tier):
    res = Result()
    if unit[0] == 'seg':
        seg_unit(unit[1], unit[2], res)
    elif unit[0] == 'dt':
        dt_unit(unit[1], res)
    elif unit[0] == 'xver':
        xver_unit(unit[1], unit[2], res)
    else:
        open_unit(unit[1], unit[2], unit[3], unit[4], res)
    res.enumerated = res.states
    return res


def expected_points(tier):
    N = 64 if tier == 'quick' else 512
    n = 0
    for v in VERSIONS:
        for seg in tables.segment_names(v):
            n += 1
    return n


def run(tier, seed, extra):
    us = units(tier)
    # big segments first keeps the pool balanced; seed only rotates
    us = common.rotate(us, seed)
    extra['bounds'] = {'open_indices': 64 if tier == 'quick' else 512, 'pair_indices': 12,
                       'versions': VERSIONS}
    nseg, nf, nleaf = tables.counts()
    extra['table_sizes'] = {'segments': nseg, 'field_rows': nf, 'leaf_positions': nleaf}
    res = common.run_units(run_unit, us, tier)
    res.dims['segments'] = nseg
    res.dims['field_rows'] = nf
    res.dims['leaf_positions'] = nleaf
    return res


def replay(point, res):
    if point['kind'] == 'seg':
        seg_unit(point['v'], point['seg'], res)
    elif point['kind'] == 'dt':
        dt_unit(point['v'], res)
    elif point['kind'] == 'xver':
        xver_unit(point['va'], point['vb'], res)
    else:
        open_unit(point['v'], point['seg'], point['last'], point['N'], res)
