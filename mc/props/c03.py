"""C03 — parsing never silently drops or reorders content.

Engine E1.  Per version and message structure: the required-only instance with, at every position,
one inserted line of each kind (Z-segment, a segment the version defines but the structure does not
list, a duplicate of the neighbour, a garbled name); all words up to length 3 (4) over {three
in-structure names, one foreign name, ZZZ} appended to MSH for some structures per version; one
line per level with one element beyond the defined count; x find_groups in {True, False}, TOLERANT.
Oracle: the outcome is an HL7apyException, or a message whose flattened segment names and whose
per-segment non-empty leaf texts (reference decoder) equal the input's; both find_groups settings
agree.
"""
from __future__ import annotations

import itertools

from .. import common, tables, refmodel, structures as st
from ..common import Result, VERSIONS, TOLERANT, exc_class, is_lib_exc

ID = 'C03'
ENGINE = 'E1 grid'
RULE = ('one case = (version, structure, base instance, inserted line kind, position, find_groups) or one word / excess line; '
        'distinct by construction; non-trivial = the text contains a line the structure does not list, a repeated line or '
        'an element beyond the defined count')
ASSUMPTIONS = [
    'segment bodies carry one or two leaves; inserted lines: ZZZ|1|z, a foreign segment, a duplicate, a garbled id (Q9Q)',
    'lower-case segment ids are not well-formed and are not generated',
    'segments hit by the field-number gaps of 2.6 / 2.8 / 2.8.1 (C02 findings) are given bare bodies',
]


def body(v, seg, n=1):
    if seg == 'MSH':
        return None
    if tables.row_anomalies(v, seg):
        return seg
    rows = [(i, fr) for i, fr in tables.field_rows(v, seg) if i]
    if not rows:
        return seg
    # a value in the last defined field that is a plain leaf, plus the first
    return '%s|%d' % (seg, n)


def foreign_segment(v, name):
    occ = st.structure_info(v, name)['occ']
    for s in ('OBX', 'NTE', 'AL1', 'PID', 'EVN', 'MSA'):
        if s not in occ and s in common.libs()[v].SEGMENTS:
            return s
    return None


def judge(res, v, name, text, tag, rank):
    from hl7apy.parser import parse_message
    ec = refmodel.default_ec(v)
    lines = refmodel.seg_lines(text)
    want_names = [l[:3] for l in lines]
    want_leaves = [refmodel.leaves(l, ec)[1] for l in lines]
    outs = {}
    for fg in (True, False):
        res.evaluations += 1
        res.transitions += 2
        point = {'v': v, 'name': name, 'text': text, 'tag': tag}
        try:
            m = parse_message(text, validation_level=TOLERANT, find_groups=fg)
            out = m.to_er7()
        except Exception as e:
            if is_lib_exc(e):
                res.classes['surfaces-as-%s' % exc_class(e)] += 1
                outs[fg] = ('exc', exc_class(e))
                continue
            res.violation('crash|%s|%s|fg=%s' % (exc_class(e), tag, fg), 'parse_message(%r, find_groups=%s) raises %s: %s' % (text, fg, exc_class(e), e), point, rank)
            outs[fg] = ('crash',)
            continue
        res.validated += 1
        outs[fg] = ('ok', out)
        olines = refmodel.seg_lines(out)
        got_names = [l[:3] for l in olines]
        if got_names != want_names:
            missing = [n for n in want_names if n not in got_names]
            if len(got_names) < len(want_names):
                sym = 'drop'
                which = missing[0] if missing else 'repeated'
                in_struct = which in st.structure_info(v, name)['occ'] if which != 'repeated' else True
                key = 'drop|fg=%s|%s' % (fg, 'name-not-in-structure' if not in_struct else '%s|%s|%s' % (v, name, which))
            else:
                key = 'reorder|fg=%s|%s|%s' % (fg, v, name)
            res.violation(key, 'v%s %s [%s] find_groups=%s: input segments %s, output %s' % (v, name, tag, fg, want_names, got_names), point, rank)
            continue
        got_leaves = [refmodel.leaves(l, ec)[1] for l in olines]
        if got_leaves != want_leaves:
            i = [k for k in range(len(lines)) if got_leaves[k] != want_leaves[k]][0]
            seg = want_names[i]
            cause = 'gap' if tables.has_gap(v, seg) else 'row-anomaly' if tables.row_anomalies(v, seg) else tag.split(':')[0]
            if tag.startswith('withdrawn:') and sorted(got_leaves[i]) == sorted(want_leaves[i]):
                # known shape (D17): the value at the withdrawn number is kept but encoded after the named fields
                res.violation('withdrawn-field-number-reordered|%s|%s' % (v, seg), 'v%s find_groups=%s: segment %r re-encoded as %r' % (v, fg, lines[i], olines[i]),
                              point, rank)
                continue
            res.violation('leaf-loss|%s|%s|%s|fg=%s' % (cause, v, seg, fg), 'v%s %s [%s] find_groups=%s: segment %r re-encoded as %r' % (v, name, tag, fg, lines[i], olines[i]),
                          point, rank)
            continue
        res.classes['content-kept'] += 1
    if outs.get(True, ('?',))[0] != outs.get(False, ('?',))[0]:
        a, b = outs.get(True), outs.get(False)
        if 'crash' not in (a[0], b[0]):
            res.violation('fg-disagree|%s' % tag.split(':')[0], 'v%s %s [%s]: find_groups=True gives %s, False gives %s' % (v, name, tag, a[:2], b[:2]),
                          {'v': v, 'name': name, 'text': text, 'tag': tag}, rank)


def struct_unit(v, names, tier, res):
    for name in names:
        info = st.structure_info(v, name)
        if info['anomalies']:
            res.blocked['structure with anomalous rows'] += 1
            continue
        trees = [t for label, t in st.instances(v, name, ('required',))]
        if not trees:
            continue
        segs = st.flatten(trees[0])
        if not segs or segs[0] != 'MSH':
            segs = ['MSH'] + [s for s in segs if s != 'MSH']
        base = [st.msh_line(v, name)] + [body(v, s) for s in segs[1:]]
        fs = foreign_segment(v, name)
        inserts = [('z', 'ZZZ|1|z'), ('garbled', 'Q9Q|1'), ('z-long', 'ZZZ|1|2|3|4|5|6|7|8|9|10|11|12|13')]
        if fs:
            inserts.append(('foreign', body(v, fs, 9)))
        for pos in range(1, len(base) + 1):
            for kind, line in inserts + ([('dup', base[pos - 1])] if pos > 1 else []):
                lines = base[:pos] + [line] + base[pos:]
                res.states += 1
                res.enumerated += 1
                res.nontrivial += 1
                judge(res, v, name, '\r'.join(lines), '%s:pos%d' % (kind, pos), len(lines))
        res.states += 1
        res.enumerated += 1
        judge(res, v, name, '\r'.join(base), 'base', len(base))
        # the same insertions into the instance with every repeatable group twice (a line right after the first segment of a
        # later repetition, between repetitions, ...) - one line kind per position, rotating
        if tier != 'quick' or v in ('2.5', '2.7') or sum(map(ord, name)) % 4 == 0:
            trees2 = [t for label, t in st.instances(v, name, ('rep2',))]
            if trees2:
                segs2 = st.flatten(trees2[0])
                if segs2 and segs2[0] != 'MSH':
                    segs2 = ['MSH'] + [s for s in segs2 if s != 'MSH']
                if len(segs2) > len(segs) and len(segs2) <= 60:
                    base2 = [st.msh_line(v, name)] + [body(v, s, k) for k, s in enumerate(segs2[1:], 1)]
                    for pos in range(1, len(base2) + 1):
                        kind, line = inserts[pos % len(inserts)]
                        lines = base2[:pos] + [line] + base2[pos:]
                        res.states += 1
                        res.enumerated += 1
                        res.nontrivial += 1
                        judge(res, v, name, '\r'.join(lines), '%s-in-rep2:pos%d' % (kind, pos), len(lines))
                    res.dims['structures with rep2 insertions'] += 1
            # every line of the instance with every group once and all optional children, duplicated in place (a segment
            # allowed once recurring inside nested, optional, non-repeatable groups)
            trees1 = [t for label, t in st.instances(v, name, ('all',))]
            if trees1:
                segs1 = st.flatten(trees1[0])
                if segs1 and segs1[0] != 'MSH':
                    segs1 = ['MSH'] + [s for s in segs1 if s != 'MSH']
                if len(segs1) > len(segs) and len(segs1) <= 45:
                    base1 = [st.msh_line(v, name)] + [body(v, s, k) for k, s in enumerate(segs1[1:], 1)]
                    for pos in range(2, len(base1) + 1):
                        lines = base1[:pos] + [base1[pos - 1]] + base1[pos:]
                        res.states += 1
                        res.enumerated += 1
                        res.nontrivial += 1
                        judge(res, v, name, '\r'.join(lines), 'dup-in-all:pos%d' % pos, len(lines))
                    res.dims['structures with duplications in the all-children instance'] += 1
        res.dims['structures'] += 1
    res.sample({'v': v, 'structures': list(names)[:3]}, cap=3)


def words_unit(v, name, n, res):
    info = st.structure_info(v, name)
    occ = [s for s in info['occ'] if s != 'MSH'][:3]
    fs = foreign_segment(v, name)
    alpha = [body(v, s) for s in occ] + ([body(v, fs, 9)] if fs else []) + ['ZZZ|1|z']
    for ln in range(1, n + 1):
        for w in itertools.product(alpha, repeat=ln):
            res.states += 1
            res.enumerated += 1
            res.nontrivial += 1
            judge(res, v, name, '\r'.join([st.msh_line(v, name)] + list(w)), 'word:%d' % ln, ln)
    res.dims['word structures'] += 1


def excess_unit(v, res):
    """one element beyond the defined count at each level"""
    name = 'ADT_A01'
    rows = dict(tables.field_rows(v, 'PID'))
    nf = max(i for i in rows if i)
    cases = []
    cases.append(('extra-field', 'PID|1' + '|' * (nf - 1) + '|beyond'))
    cases.append(('extra-field-2', 'PID|1' + '|' * (nf - 1) + '|b1|b2'))
    # a complex field: one component beyond
    for i, fr in sorted(rows.items()):
        if i and fr.kind != 'leaf' and not tables.row_anomalies(v, 'PID'):
            nc = len(fr.children)
            cases.append(('extra-component', 'PID|' + '|' * (i - 1) + '^'.join(['c'] * nc) + '^beyond'))
            sub = [c for c in fr.children if c.kind != 'leaf']
            if sub:
                j = tables.comp_index(sub[0].name)
                ns = len(sub[0].children)
                cases.append(('extra-subcomponent', 'PID|' + '|' * (i - 1) + '^' * (j - 1) + '&'.join(['s'] * ns) + '&beyond'))
            leafc = [c for c in fr.children if c.kind == 'leaf']
            if leafc:
                j = tables.comp_index(leafc[0].name)
                cases.append(('subcomponents-in-base-component', 'PID|' + '|' * (i - 1) + '^' * (j - 1) + 'p&q&r'))
            break
    for i, fr in sorted(rows.items()):
        if i and fr.kind == 'leaf' and tables.is_base(v, fr.datatype) and i > 1:
            cases.append(('components-in-base-field', 'PID|' + '|' * (i - 1) + 'a^b^c'))
            cases.append(('subcomponents-in-base-field', 'PID|' + '|' * (i - 1) + 'a&b'))
            break
    cases.append(('repetitions-beyond-max', 'PID|1~2~3'))
    # the same text at sibling positions (repetitions, components, sub-components, fields): each occurrence is content of its own
    cases.append(('identical-repetitions', 'PID|1||I1~I2~I1'))
    cases.append(('identical-repetitions-complex', 'PID|1||I^^^X~I^^^X~I^^^X'))
    cases.append(('identical-components', 'PID|1||Q^Q^Q^Q'))
    cases.append(('identical-subcomponents', 'PID|1||I^^^N&N&N'))
    cases.append(('identical-fields', 'PID|1|S|S||S'))
    cases.append(('identical-z-repetitions', 'ZZZ|r~r~r|r|r^r&r'))
    cases.append(('z-segment-13-fields', 'ZZZ|1|2|3|4|5|6|7|8|9|10|11|12|13'))
    cases.append(('z-segment-sparse', 'ZZZ||2||||||||||12|13'))
    for tag, line in cases:
        res.states += 1
        res.enumerated += 1
        res.nontrivial += 1
        judge(res, v, name, '\r'.join([st.msh_line(v, name), 'EVN', line, 'PV1']), 'excess:' + tag, 3)
    res.dims['excess lines'] += len(cases)
    # fields of datatype varies (OBX-5): components / subcomponents / repetitions with empty ones before valued ones; the
    # element names of such a field carry no datatype, so the position of a component is kept by the empty ones
    vcases = []
    for k, val in enumerate(('120^^mmHg', '^^80', 'a^^b~^c', '^p&&q^^r&s', 'x^^^^^^^^^y', '~^^z', 'a&b&&c')):
        vcases.append(('varies-%d' % k, 'OBX|1|CE|C^T||%s|u' % val))
    for tag, line in vcases:
        res.states += 1
        res.enumerated += 1
        res.nontrivial += 1
        judge(res, v, name, '\r'.join([st.msh_line(v, name), 'EVN', 'PID|1', 'PV1|1', line]), 'excess:' + tag, 4)
    res.dims['varies lines'] += len(vcases)
    # a value at a field number that the version's table skips (withdrawn field), followed by a value in a later, named field
    for seg in tables.segment_names(v):
        if tables.segment_anomaly(v, seg) or not tables.has_gap(v, seg) or seg == 'MSH':
            continue
        nums = [i for i, fr in tables.field_rows(v, seg) if i] or [0]
        missing = [g for g in range(2, max(nums)) if g not in nums]
        later = [n for n in nums if missing and n > missing[0]]
        if not missing or not later:
            continue
        g, n = missing[0], later[0]
        fields = [''] * n
        fields[g - 1] = 'w'
        fields[n - 1] = 'z'
        line = seg + '|' + '|'.join(fields)
        lines = [st.msh_line(v, name), 'EVN', 'PID|1', 'PV1|1']
        if seg in ('EVN', 'PID', 'PV1'):
            lines[['EVN', 'PID', 'PV1'].index(seg) + 1] = line
        else:
            lines.append(line)
        res.states += 1
        res.enumerated += 1
        res.nontrivial += 1
        judge(res, v, name, '\r'.join(lines), 'withdrawn:%s_%d' % (seg, g), 5)
        res.dims['values at withdrawn field numbers'] += 1


def xver_unit(va, vb, res):
    """what parsing a message of version va leaves behind must not reach a message of version vb: for every segment that
    has more fields in vb than in va, a va message carrying fields beyond va's count is parsed first, then the vb message
    with values in the first field va lacks and in the last field of vb is judged like any other text"""
    from hl7apy.parser import parse_message
    name = 'ADT_A01'
    la, lb = common.libs()[va], common.libs()[vb]
    for seg in tables.segment_names(vb):
        if seg == 'MSH' or seg not in la.SEGMENTS or tables.segment_anomaly(va, seg) or tables.segment_anomaly(vb, seg):
            continue
        if tables.has_gap(vb, seg) or tables.row_anomalies(vb, seg):
            continue
        na = max([i for i, fr in tables.field_rows(va, seg) if i] or [0])
        nb = max([i for i, fr in tables.field_rows(vb, seg) if i] or [0])
        if not (0 < na < nb):
            continue
        first = [st.msh_line(va, name), 'EVN', 'PID|1', 'PV1|1']
        fa = [''] * (na + 1)          # exactly one field beyond the count of va
        fa[na] = 'x'
        line_a = seg + '|' + '|'.join(fa)
        try:
            parse_message('\r'.join(first + [line_a]), validation_level=TOLERANT).to_er7()
        except Exception:
            pass
        fb = [''] * nb
        fb[na] = 'p'
        fb[nb - 1] = 'q'
        if na >= 1:
            fb[0] = '1'
        lines = [st.msh_line(vb, name), 'EVN', 'PID|1', 'PV1|1']
        line_b = seg + '|' + '|'.join(fb)
        if seg in ('EVN', 'PID', 'PV1'):
            lines[['EVN', 'PID', 'PV1'].index(seg) + 1] = line_b
        else:
            lines.append(line_b)
        res.states += 1
        res.enumerated += 1
        res.nontrivial += 1
        judge(res, vb, name, '\r'.join(lines), 'after-v%s:%s' % (va, seg), 5)
    res.dims['cross-version pairs'] += 1


def units(tier):
    us = []
    for a, b in zip(VERSIONS, VERSIONS[1:]):
        us.append(('xver', a, b))
        us.append(('xver', b, a))
    for v in VERSIONS:
        names = tables.concrete_message_names(v)
        for i in range(0, len(names), 8):
            us.append(('struct', v, tuple(names[i:i + 8])))
        k = 3 if tier == 'quick' else 20
        for name in [n for n in names if not st.structure_info(v, n)['anomalies']][:k * 7:7]:
            us.append(('words', v, name, 3 if tier == 'quick' else 4))
        us.append(('excess', v))
    return us


def run_unit(unit, tier):
    res = Result()
    if unit[0] == 'struct':
        struct_unit(unit[1], unit[2], tier, res)
    elif unit[0] == 'xver':
        xver_unit(unit[1], unit[2], res)
    elif unit[0] == 'words':
        words_unit(unit[1], unit[2], unit[3], res)
    else:
        excess_unit(unit[1], res)
    res.expected_size = res.enumerated
    return res


def run(tier, seed, extra):
    us = common.rotate(units(tier), seed)
    extra['bounds'] = {'word_length': 3 if tier == 'quick' else 4, 'word_structures_per_version': 3 if tier == 'quick' else 20}
    return common.run_units(run_unit, us, tier)


def replay(point, res):
    judge(res, point['v'], point['name'], point['text'], point['tag'], 0)
