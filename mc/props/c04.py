"""C04 — validate() accepts conforming messages, pinpoints each structural defect, and is pure.

Engine E1, decomposed by level so that every table row is reached without a cross product:
  message/group level  per concrete structure: the conforming required-only instance built through the
                       API (Message, add_group, add_segment, so the group finder is not trusted) and each
                       single-point mutation of it (remove one required child, max+1 copies of one bounded
                       child, one segment the parent does not list, one unnamed element);
  segment level        per (version, segment): conforming segment and the same mutations on fields, plus a
                       datatype override;
  component level      (thorough) per (version, complex datatype) on components.
Oracle: conforming => is_valid; mutated => not valid and an error text names the mutated child (or its
parent for unknown elements); purity, determinism, is_valid == (errors == []), raising form raises
exactly errors[0], report file (path and file object) lists exactly the reported errors and warnings.
"""
from __future__ import annotations

import io
import os
import tempfile

from .. import common, tables, structures as st, conform, refmodel
from ..common import Result, VERSIONS, TOLERANT, exc_class, libs
from .c12 import deep

ID = 'C04'
ENGINE = 'E1 grid'
RULE = ('one case = one built element (conforming instance or one single-point mutation of it) validated; distinct by '
        'construction (structure/segment x mutation site x mutation kind); non-trivial = mutated instances')
ASSUMPTIONS = [
    'conforming instance: required children only, required fields/components filled with one literal per datatype',
    'single-point mutations only; table-value and length warnings are compared between calls, not judged',
    'structures / segments with anomalous table rows are blocked and counted (C02 findings)',
]


def errs(r):
    return [str(e) for e in r.errors]


def norm(text):
    import re
    return re.sub(r'\d+', 'N', text)[:80]


def purity_and_reports(res, el, label, point):
    """validate() is a pure, deterministic observation; the three output forms agree."""
    before = (el.to_er7(), deep(el))
    r1 = el.validate(return_errors=True)
    r2 = el.validate(return_errors=True)
    after = (el.to_er7(), deep(el))
    res.transitions += 5
    if before != after:
        res.violation('impure|%s' % label, 'validate() changed the element: %r -> %r' % (before[0][:100], after[0][:100]), point, 1)
    if (r1.is_valid, errs(r1), [str(w) for w in r1.warnings]) != (r2.is_valid, errs(r2), [str(w) for w in r2.warnings]):
        res.violation('nondeterministic|%s' % label, 'two validate() calls report differently', point, 1)
    # a result that is held stays what it was while other elements are validated
    held = (r1.is_valid, errs(r1), [str(w) for w in r1.warnings])
    from hl7apy.core import Segment
    other_bad = Segment('PID', version=el.version)
    other_bad.validate(return_errors=True)
    other_ok = Segment('EVN', version=el.version)
    try:
        other_ok.validate(return_errors=True)
    except Exception:
        pass
    if (r1.is_valid, errs(r1), [str(w) for w in r1.warnings]) != held:
        res.violation('impure|held-report-changed|%s' % label, 'a report returned by validate() changed when another element was validated: %r -> %r'
                      % (held[1][:2], errs(r1)[:2]), point, 1)
    if r1.is_valid != (len(r1.errors) == 0):
        res.violation('report-mismatch|is_valid', 'is_valid=%r with %d errors' % (r1.is_valid, len(r1.errors)), point, 1)
    try:
        ret = el.validate()
        if ret is not True or r1.errors:
            res.violation('report-mismatch|raising-form', 'validate() returned %r while return_errors lists %r' % (ret, errs(r1)[:2]), point, 1)
    except Exception as e:
        if not r1.errors or type(e) is not type(r1.errors[0]) or str(e) != str(r1.errors[0]):
            res.violation('report-mismatch|raising-form', 'validate() raised %s(%s); first reported error is %r' % (exc_class(e), e, errs(r1)[:1]), point, 1)
    want = ['Error: %s' % e for e in r1.errors] + ['Warning: %s' % w for w in r1.warnings]
    buf0 = io.StringIO()
    try:
        el.validate(report_file=buf0)           # the raising form writes the same report
    except Exception:
        pass
    if buf0.getvalue().splitlines() != want:
        res.violation('report-mismatch|file-object-raising-form', 'report written %r, reported %r' % (buf0.getvalue().splitlines()[:3], want[:3]), point, 1)
    buf = io.StringIO()
    el.validate(report_file=buf, return_errors=True)
    got = buf.getvalue().splitlines()
    if got != want:
        res.violation('report-mismatch|file-object', 'report written %r, reported %r' % (got[:3], want[:3]), point, 1)
    fd, path = tempfile.mkstemp(prefix='c04-', dir='/dev/shm' if os.path.isdir('/dev/shm') else None)
    os.close(fd)
    try:
        with open(path, 'w') as f:
            f.write('stale content\n' * 3)
        el.validate(report_file=path, return_errors=True)
        with open(path) as f:
            got = f.read().splitlines()
        if got != want:
            res.violation('report-mismatch|file-path', 'report file %r, reported %r' % (got[:3], want[:3]), point, 1)
    finally:
        os.unlink(path)
    return r1


def expect_invalid(res, el, level, kind, v, parent, child, point, names):
    res.evaluations += 1
    res.enumerated += 1
    res.states += 1
    res.nontrivial += 1
    res.transitions += 1
    try:
        r = el.validate(return_errors=True)
    except Exception as e:
        res.violation('validate-raises|%s|%s|%s' % (level, kind, exc_class(e)), 'validate(return_errors=True) raises %s: %s (%s %s.%s v%s)' % (exc_class(e), e, kind, parent, child, v),
                      point, 2)
        return
    res.validated += 1
    if r.is_valid or not any(any(n and n in t for n in names) for t in errs(r)):
        res.violation('undetected|%s|%s|%s|%s|%s' % (level, kind, v, parent, child),
                      '%s level, %s of %s.%s (v%s): validation %s, errors %r' % (level, kind, parent, child, v,
                                                                              'passes' if r.is_valid else 'fails without naming it', errs(r)[:3]), point, 2)
        res.classes['undetected'] += 1
    else:
        res.classes['detected:%s' % kind] += 1


# ------------------------------------------------------------------------------ message / group level

def add_subtree(parent, pref, node, v):
    decl = st.declared_children(pref)
    cref = decl[node[1]][1]
    if node[0] == 'S':
        s = parent.add_segment(node[1])
        conform.fill_segment(s, v, cref)
    else:
        g = parent.add_group(node[1])
        for n in node[2]:
            add_subtree(g, cref, n, v)


def foreign_for(v, decl):
    for s in ('OBX', 'NTE', 'AL1', 'PID', 'EVN', 'MSA', 'NK1'):
        if s not in decl and s in libs()[v].SEGMENTS and not tables.segment_anomaly(v, s):
            return s
    return None


def message_unit(v, name, res, reference_mode='standard'):
    info = st.structure_info(v, name)
    if info['anomalies']:
        res.blocked['structure with anomalous rows'] += 1
        return
    ref = tables.msg_ref(v, name)
    profile = {name: ref} if reference_mode == 'profile' else None
    trees = [t for label, t in st.instances(v, name, ('required',), keep_empty=True)]
    tree = trees[0] if trees else []
    point = {'kind': 'message', 'v': v, 'name': name, 'ref': reference_mode}
    res.evaluations += 1
    res.enumerated += 1
    res.states += 1
    res.transitions += 1
    try:
        m = conform.build_message(v, name, tree, reference=profile)
        r = purity_and_reports(res, m, 'message', point)
    except Exception as e:
        res.violation('build-raises|%s|%s|%s' % (v, name, exc_class(e)), 'building / validating the conforming instance of %s (v%s) raises %s: %s' % (name, v, exc_class(e), e),
                      point, 0)
        return
    res.validated += 1
    if not r.is_valid:
        dup = [s for s, n in info['occ'].items() if n > 1]
        first = norm(errs(r)[0])
        res.violation('conforming-invalid|%s|%s|%s' % (v, name, first), 'conforming instance of %s (v%s, %s) does not validate: %s%s'
                      % (name, v, reference_mode, errs(r)[:3], ' (structure lists %s more than once)' % dup if dup else ''), point, 0)
        res.classes['conforming-invalid'] += 1
        return
    res.classes['conforming-valid'] += 1
    # a child the structure does not allow, attached and removed again (by remove, by del, by pop), leaves a conforming message
    fs0 = foreign_for(v, st.declared_children(ref))
    if fs0:
        for how in ('remove', 'del', 'pop'):
            res.evaluations += 1
            res.enumerated += 1
            res.states += 1
            res.transitions += 3
            try:
                mm = conform.build_message(v, name, tree, reference=profile)
                extra = mm.add_segment(fs0)
                if how == 'remove':
                    mm.children.remove(extra)
                elif how == 'del':
                    delattr(mm, fs0.lower())
                else:
                    mm.children.pop(len(mm.children) - 1)
                r3 = mm.validate(return_errors=True)
            except Exception as e:
                res.violation('build-raises|add-then-%s|%s' % (how, exc_class(e)), 'conforming %s (v%s) + %s attached and removed (%s): %s: %s' % (name, v, fs0, how, exc_class(e), e), point, 1)
                continue
            if not r3.is_valid:
                res.violation('conforming-invalid|after-add-then-%s|%s' % (how, norm(errs(r3)[0])), 'conforming instance of %s (v%s) after %s was attached and removed '
                              'again (%s) does not validate: %s' % (name, v, fs0, how, errs(r3)[:2]), point, 1)
            else:
                res.classes['conforming-valid-after-add-and-remove'] += 1
    # single-point mutations, walking the instance
    first_mut = [True]

    def walk(pref, nodes, path, pname):
        decl = st.declared_children(pref)
        for n in nodes:
            cls, cref, (mn, mx) = decl[n[1]]
            here = path + (n[1],)
            if n[1] == 'MSH':
                continue
            if mn >= 1:
                mm = conform.build_message(v, name, tree, reference=profile, skip=here)
                expect_invalid(res, mm, 'message' if not path else 'group', 'missing-required', v, pname, n[1], dict(point, mut=['skip', list(here)]), [n[1]])
                if first_mut[0]:
                    first_mut[0] = False
                    purity_and_reports(res, mm, 'message-mutated', point)
            if mx != -1:
                mm = conform.build_message(v, name, tree, reference=profile)
                par = conform.find_parent(mm, path)
                for _ in range(mx):
                    add_subtree(par, pref, n, v)
                expect_invalid(res, mm, 'message' if not path else 'group', 'exceeds-max', v, pname, n[1], dict(point, mut=['exceed', list(here)]), [n[1]])
            if n[0] == 'G':
                walk(cref, n[2], here, n[1])
        fs = foreign_for(v, decl)
        if fs:
            mm = conform.build_message(v, name, tree, reference=profile)
            par = conform.find_parent(mm, path)
            s = par.add_segment(fs)
            conform.fill_segment(s, v, libs()[v].SEGMENTS[fs])
            expect_invalid(res, mm, 'message' if not path else 'group', 'foreign-child', v, pname, fs, dict(point, mut=['foreign', list(path)]), [fs])
    walk(ref, tree, (), name)
    # unknown element: an unnamed field in the first segment after MSH (or in MSH)
    from hl7apy.core import Field
    mm = conform.build_message(v, name, tree, reference=profile)
    segs = st.parsed_flat(mm)
    target = segs[1] if len(segs) > 1 else segs[0]
    target.add(Field(version=v))
    expect_invalid(res, mm, 'message', 'unknown-element', v, target.name, '(unnamed field)', dict(point, mut=['unknown']), [target.name, 'Unknown'])
    res.dims['structures (%s reference)' % reference_mode] += 1
    res.sample({'v': v, 'structure': name, 'conforming': mm.to_er7()[:160]}, cap=3)


# ------------------------------------------------------------------------------ segment level

def segment_unit(v, seg, res):
    from hl7apy.core import Segment, Field
    if tables.segment_anomaly(v, seg) or seg == 'ANYHL7SEGMENT' or tables.row_anomalies(v, seg):
        res.blocked['segment with anomalous rows'] += 1
        return
    sref = libs()[v].SEGMENTS[seg]
    point = {'kind': 'segment', 'v': v, 'seg': seg}

    def build(skip=None):
        s = Segment(seg, version=v)
        if seg == 'MSH':
            s.msh_1 = '|'
            s.msh_2 = '^~\\&'
        conform.fill_segment(s, v, sref, skip=skip)
        return s
    res.evaluations += 1
    res.enumerated += 1
    res.states += 1
    res.transitions += 1
    try:
        s = build()
        r = s.validate(return_errors=True)
    except Exception as e:
        res.violation('build-raises|%s|%s|%s' % (v, seg, exc_class(e)), 'conforming %s (v%s): %s: %s' % (seg, v, exc_class(e), e), point, 0)
        return
    res.validated += 1
    if not r.is_valid:
        res.violation('conforming-invalid|%s|%s|%s' % (v, seg, norm(errs(r)[0])), 'conforming segment %s (v%s) %r does not validate: %s' % (seg, v, s.to_er7(), errs(r)[:3]), point, 0)
        return
    res.classes['conforming-valid'] += 1
    rows = conform.seg_rows(sref)
    ec = refmodel.default_ec(v)
    for r_ in rows:
        if not r_.ok or (seg == 'MSH' and r_.name in ('MSH_1', 'MSH_2')):
            continue
        mn, mx = r_.card
        if mn >= 1:
            expect_invalid(res, build(skip=r_.name), 'segment', 'missing-required', v, seg, r_.name, dict(point, mut=['skip', r_.name]), [r_.name])
        if mx != -1:
            s = build()
            have = len(getattr(s, r_.name.lower()))
            for _ in range(mx + 1 - have):
                s.add_field(r_.name).value = conform.field_text(v, r_, ec)
            expect_invalid(res, s, 'segment', 'exceeds-max', v, seg, r_.name, dict(point, mut=['exceed', r_.name]), [r_.name])
    s = build()
    s.add(Field(version=v))
    expect_invalid(res, s, 'segment', 'unknown-element', v, seg, '(unnamed field)', dict(point, mut=['unknown']), [seg, 'Unknown'])
    # a field of a base datatype that received two components, a component of a base datatype that received two subcomponents
    # (TOLERANT accepts the text; the validator must report the element)
    for r_ in rows:
        if not r_.ok or (seg == 'MSH' and r_.name in ('MSH_1', 'MSH_2', 'MSH_12')):
            continue
        if r_.kind == 'leaf' and r_.datatype not in ('varies', None) and r_.card[1] != 0:
            s = build(skip=r_.name)
            lit = conform.leaf_text(v, r_.datatype)
            try:
                setattr(s, r_.name.lower(), lit + ec['COMPONENT'] + lit)
            except Exception as e:
                res.dims['components in a base field refused at assignment'] += 1
                continue
            expect_invalid(res, s, 'segment', 'components-in-base-field', v, seg, r_.name, dict(point, mut=['split', r_.name]), [r_.name])
        elif r_.kind != 'leaf' and r_.card[1] != 0:
            leafc = [c for c in r_.children if c.kind == 'leaf' and c.datatype not in ('varies', None) and c.card[1] != 0]
            if leafc:
                c = leafc[0]
                s = build(skip=r_.name)
                lit = conform.leaf_text(v, c.datatype)
                j = tables.comp_index(c.name)
                text = conform.field_text(v, r_, ec).split(ec['COMPONENT'])
                text += [''] * (j - len(text))
                text[j - 1] = lit + ec['SUBCOMPONENT'] + lit
                try:
                    setattr(s, r_.name.lower(), ec['COMPONENT'].join(text))
                except Exception as e:
                    res.dims['subcomponents in a base component refused at assignment'] += 1
                    continue
                expect_invalid(res, s, 'segment', 'subcomponents-in-base-component', v, seg, c.name, dict(point, mut=['split', r_.name, c.name]), [c.name])
    # datatype override on the first complex field
    for r_ in rows:
        if r_.ok and r_.kind != 'leaf' and not (seg == 'MSH' and r_.name in ('MSH_1', 'MSH_2')):
            s = build(skip=r_.name)
            try:
                f = Field(r_.name, datatype='ST', version=v)
                f.value = 'x'
                s.add(f)
            except Exception as e:
                res.dims['datatype override not constructible'] += 1
                break
            expect_invalid(res, s, 'segment', 'wrong-datatype', v, seg, r_.name, dict(point, mut=['datatype', r_.name]), [r_.name])
            break
    res.dims['segments'] += 1


# ------------------------------------------------------------------------------ component level (thorough)

def datatype_unit(v, res):
    from hl7apy.core import Field, Component
    ec = refmodel.default_ec(v)
    for dt in tables.complex_datatypes(v):
        rows = tables.datatype_rows(v, dt)
        point = {'kind': 'datatype', 'v': v}

        def build(skip=None):
            f = Field('ZZZ_1', datatype=dt, version=v)
            for r_ in rows:
                if r_.card[0] >= 1 and r_.name != skip:
                    setattr(f, r_.name.lower(), conform.comp_text(v, r_, ec))
            usable = [r_ for r_ in rows if r_.card[1] != 0]      # max 0 = withdrawn
            if not f.children and usable and usable[0].name != skip:
                setattr(f, usable[0].name.lower(), conform.comp_text(v, usable[0], ec))
            return f
        res.evaluations += 1
        res.enumerated += 1
        res.states += 1
        try:
            f = build()
            r = f.validate(return_errors=True)
        except Exception as e:
            res.violation('build-raises|%s|dt-%s|%s' % (v, dt, exc_class(e)), 'conforming Z field of datatype %s (v%s): %s: %s' % (dt, v, exc_class(e), e), point, 0)
            continue
        if not r.is_valid:
            res.violation('conforming-invalid|%s|dt-%s|%s' % (v, dt, norm(errs(r)[0])), 'conforming Z field of datatype %s (v%s) %r does not validate: %s' % (dt, v, f.to_er7(), errs(r)[:2]), point, 0)
            continue
        res.classes['conforming-valid'] += 1
        for r_ in rows:
            mn, mx = r_.card
            if mn >= 1:
                expect_invalid(res, build(skip=r_.name), 'component', 'missing-required', v, dt, r_.name, dict(point, mut=[dt, 'skip', r_.name]), [r_.name])
            if mx != -1:
                f = build()
                have = len(getattr(f, r_.name.lower()))
                for _ in range(mx + 1 - have):
                    f.add_component(r_.name).value = conform.comp_text(v, r_, ec)
                expect_invalid(res, f, 'component', 'exceeds-max', v, dt, r_.name, dict(point, mut=[dt, 'exceed', r_.name]), [r_.name])
    res.dims['datatype versions'] += 1


def dt_field(v, dt, name, ec, skip=None):
    """conforming Z field of a complex datatype: required components (the first usable one if none is required)"""
    from hl7apy.core import Field
    rows = tables.datatype_rows(v, dt)
    f = Field(name, datatype=dt, version=v)
    for r_ in rows:
        if r_.card[0] >= 1 and r_.name != skip:
            setattr(f, r_.name.lower(), conform.comp_text(v, r_, ec))
    usable = [r_ for r_ in rows if r_.card[1] != 0]
    if not f.children and usable and usable[0].name != skip:
        setattr(f, usable[0].name.lower(), conform.comp_text(v, usable[0], ec))
    return f


def zseg_unit(v, tier, res):
    """Z segments holding fields of two (three) different complex datatypes, in both orders; on their own and inside a
    conforming message; then the same with one required component missing from the last field"""
    from hl7apy.core import Segment
    from hl7apy.parser import parse_message
    ec = refmodel.default_ec(v)
    dts = tables.complex_datatypes(v)
    n = len(dts)
    pairs = []
    for i, a in enumerate(dts):
        for step in ((1, 2) if tier == 'quick' else range(1, n)):
            b = dts[(i + step) % n]
            if a != b:
                pairs.append((a, b))
                pairs.append((b, a))
    pairs = sorted(set(pairs))
    host_tree = [t for label, t in st.instances(v, 'ACK', ('required',))][0]
    for k, (a, b) in enumerate(pairs):
        point = {'kind': 'zseg', 'v': v}
        res.evaluations += 1
        res.enumerated += 1
        res.states += 1
        res.transitions += 1
        try:
            z = Segment('ZZ1', version=v)
            z.add(dt_field(v, a, 'ZZ1_1', ec))
            z.add(dt_field(v, b, 'ZZ1_2', ec))
            if k % 3 == 0:
                z.add(dt_field(v, dts[(dts.index(b) + 1) % n], 'ZZ1_3', ec))
            target = z
            if k % 5 == 0:
                target = conform.build_message(v, 'ACK', host_tree)
                if not target.validate(return_errors=True).is_valid:
                    raise common.HarnessError('the conforming ACK host does not validate in v%s' % v)
                target.add(z)
            r = target.validate(return_errors=True)
        except Exception as e:
            res.violation('build-raises|%s|zseg|%s' % (v, exc_class(e)), 'Z segment with fields of datatypes %s, %s (v%s): %s: %s' % (a, b, v, exc_class(e), e), point, 0)
            continue
        res.validated += 1
        if not r.is_valid:
            res.violation('conforming-invalid|%s|zseg|%s' % (v, norm(errs(r)[0])), 'Z segment %r with conforming fields of datatypes %s, %s (v%s) does not validate: %s'
                          % (z.to_er7(), a, b, v, errs(r)[:2]), point, 0)
            continue
        res.classes['conforming-valid'] += 1
        req = [r_ for r_ in tables.datatype_rows(v, b) if r_.card[0] >= 1]
        if req:
            z = Segment('ZZ1', version=v)
            z.add(dt_field(v, a, 'ZZ1_1', ec))
            z.add(dt_field(v, b, 'ZZ1_2', ec, skip=req[0].name))
            expect_invalid(res, z, 'zsegment', 'missing-required', v, b, req[0].name, point, [req[0].name])
    res.dims['z segments: datatype pairs'] += len(pairs)


def units(tier):
    us = []
    for v in VERSIONS:
        names = tables.concrete_message_names(v)
        for i in range(0, len(names), 4):
            us.append(('msg', v, tuple(names[i:i + 4]), 'standard'))
        if tier != 'quick' or v in ('2.5', '2.7'):
            for i in range(0, len(names), 4):
                us.append(('msg', v, tuple(names[i:i + 4]), 'profile'))
        segs = tables.segment_names(v)
        for i in range(0, len(segs), 12):
            us.append(('seg', v, tuple(segs[i:i + 12])))
        if tier != 'quick':
            us.append(('dt', v))
        us.append(('zseg', v))
    # the same Z-segment cases of version b right after those of version a in one process (what the validator looked up
    # for one version must not answer for another one)
    for a, b in zip(VERSIONS, VERSIONS[1:]):
        us.append(('zseg-after', a, b))
        us.append(('zseg-after', b, a))
    return us


def run_unit(unit, tier):
    res = Result()
    if unit[0] == 'msg':
        for name in unit[2]:
            message_unit(unit[1], name, res, unit[3])
    elif unit[0] == 'seg':
        for seg in unit[2]:
            segment_unit(unit[1], seg, res)
    elif unit[0] == 'zseg':
        zseg_unit(unit[1], tier, res)
    elif unit[0] == 'zseg-after':
        zseg_unit(unit[1], 'quick', Result())
        zseg_unit(unit[2], 'quick', res)
        for k in list(res.violations):
            w = res.violations.pop(k)
            res.violations['after-v%s|%s' % (unit[1], k)] = w
    else:
        datatype_unit(unit[1], res)
    res.expected_size = res.enumerated
    return res


def run(tier, seed, extra):
    us = common.rotate(units(tier), seed)
    extra['bounds'] = {'instance': 'required-only', 'mutations': ['missing-required', 'exceeds-max', 'foreign-child', 'unknown-element', 'wrong-datatype'],
                       'identity_profile_versions': ['2.5', '2.7'] if tier == 'quick' else 'all'}
    return common.run_units(run_unit, us, tier)


def replay(point, res):
    if point['kind'] == 'message':
        message_unit(point['v'], point['name'], res, point.get('ref', 'standard'))
    elif point['kind'] == 'segment':
        segment_unit(point['v'], point['seg'], res)
    elif point['kind'] == 'zseg':
        zseg_unit(point['v'], 'quick', res)
    else:
        datatype_unit(point['v'], res)
