"""C05 — STRICT accepts a subset of TOLERANT and enforces what validate() checks.

Engine E1 + E2.
E1 (inputs): for every segment of every version the canonical texts of C01 (each leaf alone with its
typed literal, all leaves) plus, for every leaf, the invalid literal of its base datatype and an
over-long value; each text parsed under STRICT and TOLERANT (parse_segment, and parse_message for
the all-leaves shape inside a host structure).
E2 (histories): breadth-first search in lock step on a STRICT and a TOLERANT twin of each root
(Segment, Field, Message, Group) over add / set / indexed set / delete with admissible children, a
second copy of a max-1 child, a foreign child, an unnamed child, a datatype override, an invalid
and an over-long value.
Oracle: STRICT accepted => TOLERANT accepted, equal encoding, equal validation report; every
validator error on a STRICT-accepted element is a missing required child; STRICT refuses each of:
cardinality overflow, foreign or unknown child, datatype override, invalid value, over-long value.
"""
from __future__ import annotations

from .. import common, hist, refmodel, tables
from ..common import Result, VERSIONS, STRICT, TOLERANT, exc_class, libs, is_lib_exc
from . import c01, c09

ID = 'C05'
ENGINE = 'E1 grid'
RULE = ('E1: one case = (version, segment, text) parsed under both levels; E2: one case = one transition applied to a STRICT '
        'and a TOLERANT twin; distinct by construction / canonical hashing; non-trivial = texts with an invalid or over-long '
        'leaf and transitions that STRICT must refuse')
ASSUMPTIONS = [
    'one invalid literal per non-textual base datatype; over-long = maximum length + 1 (textual datatypes with a limit)',
    'E2: three child names per root, histories to the stated depth',
]

MAXLEN = {'ST': 199, 'IS': 20, 'GTS': 199, 'NM': 16, 'SI': 4}


def report(e):
    try:
        r = e.validate(return_errors=True)
        return (r.is_valid, tuple(str(x) for x in r.errors), tuple(str(x) for x in r.warnings))
    except Exception as x:
        return ('raise', exc_class(x))


def both(fn):
    out = {}
    for name, lvl in (('S', STRICT), ('T', TOLERANT)):
        try:
            e = fn(lvl)
            out[name] = ('ok', e.to_er7(), report(e))
        except Exception as x:
            out[name] = ('raise', exc_class(x), is_lib_exc(x) or isinstance(x, ValueError))
    return out


def judge_pair(res, out, key_base, what, point, must_reject=None, rank=1):
    s, t = out['S'], out['T']
    res.validated += 1
    if s[0] == 'ok':
        if must_reject:
            res.violation('strict-admits|%s|%s' % (must_reject, key_base), 'STRICT accepts %s: %s' % (must_reject, what), point, rank)
            res.classes['strict-admits'] += 1
            return
        if t[0] != 'ok':
            res.violation('tolerant-rejects|%s|%s' % (key_base, t[1]), 'accepted under STRICT but TOLERANT raises %s: %s' % (t[1], what), point, rank)
            return
        if s[1] != t[1]:
            res.violation('er7-differs|%s' % key_base, 'STRICT encodes %r, TOLERANT %r: %s' % (s[1][:120], t[1][:120], what), point, rank)
            return
        if s[2] != t[2]:
            res.violation('report-differs|%s' % key_base, 'validation reports differ: STRICT %r, TOLERANT %r: %s' % (str(s[2])[:150], str(t[2])[:150], what), point, rank)
            return
        if s[2][0] != 'raise':
            other = [e for e in s[2][1] if not e.startswith('Missing required child')]
            if other:
                res.violation('strict-admits|validator-error|%s|%s' % (key_base, c04norm(other[0])),
                              'element accepted by STRICT construction draws validator error %r: %s' % (other[0], what), point, rank)
                return
        res.classes['strict-subset-ok'] += 1
    else:
        if not s[2]:
            res.violation('strict-crash|%s|%s' % (key_base, s[1]), 'STRICT raises %s (neither a library exception nor ValueError): %s' % (s[1], what), point, rank)
            return
        res.classes['strict-rejects:%s' % s[1]] += 1
        if t[0] != 'ok' and must_reject is None and not key_base.startswith('hist'):
            res.dims['both levels reject'] += 1


def c04norm(t):
    import re
    return re.sub(r'\d+', 'N', t)[:60]


# ------------------------------------------------------------------------------ E1

def seg_unit(v, seg, res, tier):
    from hl7apy.parser import parse_segment, parse_message
    from hl7apy.core import Segment
    if tables.segment_anomaly(v, seg) or seg == 'ANYHL7SEGMENT' or tables.row_anomalies(v, seg):
        res.blocked['segment with anomalous rows (C02 findings)'] += 1
        return
    ec = refmodel.default_ec(v)
    ec.pop('TRUNCATION', None)
    rows = c01.usable_rows(v, seg)

    def segtext(fields):
        return refmodel.enc_segment(seg, dict(fields), ec)

    def run(text, shape, must_reject=None):
        res.evaluations += 2
        res.enumerated += 1
        res.states += 1
        res.transitions += 4
        if must_reject:
            res.nontrivial += 1
        out = both(lambda lvl: parse_segment(text, version=v, validation_level=lvl))
        judge_pair(res, out, '%s|%s' % (shape, 'v' + v if shape == 'all-leaves' else ''), 'parse_segment(%r) v%s' % (text[:100], v),
                   {'kind': 'seg', 'v': v, 'seg': seg, 'text': text, 'shape': shape, 'must': must_reject}, must_reject)
        if must_reject:
            # STRICT once more, now that TOLERANT has processed the same text in this process: what TOLERANT let through must
            # not be remembered on behalf of STRICT
            again = both(lambda lvl: parse_segment(text, version=v, validation_level=lvl))['S']
            res.transitions += 1
            if again != out['S']:
                res.violation('strict-depends-on-history|%s' % must_reject.split('-')[0], 'parse_segment(%r) v%s under STRICT gives %r when fresh and %r after '
                              'the same text was parsed under TOLERANT' % (text[:100], v, out['S'][:2], again[:2]),
                              {'kind': 'seg', 'v': v, 'seg': seg, 'text': text, 'shape': shape, 'must': must_reject}, 1)

    # base-datatype fields declared 'leaf' take no component/subcomponent separators: STRICT may refuse what TOLERANT keeps
    for idx, fr in rows:
        leaves = []
        if fr.kind == 'leaf':
            leaves = [(None, None, fr)]
        else:
            for cr in fr.children:
                j = tables.comp_index(cr.name)
                if cr.kind == 'leaf':
                    leaves.append((j, None, cr))
                else:
                    leaves.extend((j, tables.comp_index(sr.name), sr) for sr in cr.children)
        for j, k, leaf in leaves:
            dt = leaf.datatype

            def rep_of(lit):
                return lit if j is None else {j: (lit if k is None else {k: lit})}
            lit = c01.lit_for(v, leaf)
            run(segtext({idx: [rep_of(lit)]}), 'leaf-valid')
            bad = tables.invalid_literal(dt, v) if tables.is_base(v, dt) else None
            if bad:
                run(segtext({idx: [rep_of(bad)]}), 'leaf-invalid', must_reject='invalid-%s-value' % dt)
            if j is None and tables.is_base(v, dt):
                # more than one component / subcomponent in a field whose datatype is a base one
                for extra, shape in ((lit + '^' + lit, 'base-field-2-components'), (lit + '&' + lit, 'base-field-2-subcomponents')):
                    run(segtext({idx: [extra]}), shape)
            if tables.is_base(v, dt) and dt in MAXLEN and not (v == '2.6' and dt == 'ST'):
                long_ = ('1' if dt in ('NM', 'SI') else 'y') * (MAXLEN[dt] + 1)
                run(segtext({idx: [rep_of(long_)]}), 'leaf-overlong', must_reject='overlong-%s-value' % dt)
    # one repetition more than the table allows, for every field with a bounded maximum (1, 2, 3, 10 ... occur)
    for idx, fr in rows:
        mx = fr.card[1]
        if mx in (-1, 0) or mx > 12 or (seg == 'MSH' and idx <= 2):
            continue
        one = c01.field_all_leaves(v, fr)
        run(segtext({idx: [one] * (mx + 1)}), 'repetitions-beyond-max', must_reject='cardinality-overflow-max-%d' % mx)
        if mx > 1:
            run(segtext({idx: [one] * mx}), 'repetitions-at-max')
    allf = {idx: [c01.field_all_leaves(v, fr)] for idx, fr in rows}
    run(segtext(allf), 'all-leaves')
    if seg != 'MSH':
        hostn = c01.host_structure(v, seg)
        if hostn:
            text = refmodel.enc_message([('MSH', c01.msh_fields(v, hostn)), (seg, allf)], ec)
            res.evaluations += 2
            res.enumerated += 1
            res.states += 1
            res.transitions += 4
            out = both(lambda lvl: parse_message(text, validation_level=lvl))
            judge_pair(res, out, 'message-all-leaves|', 'parse_message(%r)' % text[:100], {'kind': 'msg', 'v': v, 'seg': seg, 'text': text}, None)
    res.dims['segments'] += 1


# ------------------------------------------------------------------------------ E2 lock-step twins

V = '2.5'


class TwinSpec(hist.Spec):
    def __init__(self, sid, kind, root_name, init, names, values, maxes):
        self.sid, self.kind, self.root_name, self.init, self.names, self.values, self.maxes = sid, kind, root_name, init, names, values, maxes
        self._s = c09.ListSpec(sid + '-S', kind, STRICT, root_name, init, names, values, maxes, None, init)
        self._t = c09.ListSpec(sid + '-T', kind, TOLERANT, root_name, init, names, values, maxes, None, init)

    def build(self):
        return {'S': self._s._make(self.init), 'T': self._t._make(self.init), 'out': [None], 'kept': {}}

    KEPT = {'segment': ('pid_7', 'ts_1', 'PID_7', '2021'), 'field': ('cx_10', 'cwe_1', 'CX_10', 'k'), 'message': ('pd1', 'pd1_3', 'PD1', 'k'),
            'group': ('in2', 'in2_1', 'IN2', 'k')}

    def alphabet(self, pool, hist_):
        ops = []
        for n in self.names:
            v1, v2 = self.values[n]
            ops += [('set', n, v1), ('set', n, v2), ('setidx', n, 1, v2), ('add_el', n, v1), ('add_helper', n, v2), ('del', n), ('delidx', n, 1)]
        ops += [('x_overflow', self.names[0]), ('x_foreign',), ('x_unknown',), ('x_dtoverride',), ('x_invalid',), ('x_overlong',), ('x_dtnone',)]
        ops += [('keep_proxy',), ('write_kept',), ('x_kept_overflow',)]
        return ops

    def apply(self, pool, op):
        outs = {}
        for who, spec in (('S', self._s), ('T', self._t)):
            try:
                if op[0] in ('keep_proxy', 'write_kept', 'x_kept_overflow'):
                    self.kept_op(pool, who, spec, op)
                else:
                    self.apply_one(pool[who], spec, op)
                outs[who] = ('ok',)
            except Exception as e:
                outs[who] = ('raise', exc_class(e), is_lib_exc(e) or isinstance(e, ValueError))
        pool['out'][0] = outs

    def kept_op(self, pool, who, spec, op):
        """a traversal proxy obtained earlier is used after other operations (its element may have been created in between)"""
        r = pool[who]
        outer, inner, cname, val = self.KEPT[self.kind]
        if op[0] == 'keep_proxy':
            pool['kept'][who] = getattr(getattr(r, outer), inner)
        elif op[0] == 'write_kept':
            p = pool['kept'].get(who)
            if p is None:
                raise LookupError('no proxy kept')
            p.value = val
        else:
            # keep a proxy into a max-1 child that does not exist, create the child normally, then write through the proxy
            p = getattr(getattr(r, outer), inner)
            adder = {'segment': 'add_field', 'field': 'add_component', 'message': 'add_segment', 'group': 'add_segment'}[self.kind]
            getattr(r, adder)(cname)
            p.value = val

    def apply_one(self, r, spec, op):
        from hl7apy.core import Segment, Field, Component, SubComponent, Group
        k = op[0]
        lvl = spec.level
        if not k.startswith('x_'):
            return spec.apply({'root': r, 'donor': None}, op)
        if k == 'x_overflow':
            r.add(spec.child_el(op[1], self.values[op[1]][0]))
            if self.maxes.get(op[1], -1) == 1 and len(getattr(r, op[1])) < 2:
                r.add(spec.child_el(op[1], self.values[op[1]][0]))
        elif k == 'x_foreign':
            if self.kind == 'segment':
                f = Field('NK1_2', version=V, validation_level=lvl)
                f.value = 'x'
                r.add(f)
            elif self.kind == 'field':
                c = Component('XPN_1', version=V, validation_level=lvl)
                c.value = 'x'
                r.add(c)
            else:
                r.add(Segment('OBR' if self.kind == 'group' else 'ORC', version=V, validation_level=lvl))
        elif k == 'x_unknown':
            if self.kind == 'segment':
                r.add(Field(version=V, validation_level=lvl))
            elif self.kind == 'field':
                r.add(Component(datatype='ZZ', version=V, validation_level=lvl))
            else:
                r.add(Group(version=V, validation_level=lvl))
        elif k == 'x_dtoverride':
            if self.kind == 'segment':
                f = Field('PID_3', datatype='ST', version=V, validation_level=lvl)
                r.add(f)
            elif self.kind == 'field':
                r.add(Component('CX_1', datatype='NM', version=V, validation_level=lvl))
            else:
                s = Segment('PID', version=V, validation_level=lvl)
                s.add(Field('PID_5', datatype='ST', version=V, validation_level=lvl))
                r.add(s)
        elif k == 'x_dtnone':
            # the official datatype cleared first (None), then overridden, then a value of the new datatype
            if self.kind == 'field':
                cs = r.cx_1
                c = cs[0] if len(cs) else r.add_component('CX_1')
                c.datatype = None
                c.datatype = 'NM'
                c.value = '12'
            else:
                seg = r if self.kind == 'segment' else (r.pid if self.kind == 'message' else r.in1)
                n = 'PID_1' if self.kind != 'group' else 'IN1_1'
                fs = getattr(seg, n)
                f = fs[0] if len(fs) else seg.add_field(n)
                f.datatype = None
                f.datatype = 'ST'
                f.value = 'abc'
        elif k == 'x_invalid':
            if self.kind == 'segment':
                r.pid_7 = 'notadate'
            elif self.kind == 'field':
                r.cx_7 = 'notadate'
            elif self.kind == 'message':
                r.pid.pid_7 = 'notadate'
            else:
                r.in1.in1_12 = 'notadate'
        elif k == 'x_overlong':
            if self.kind == 'segment':
                r.pid_8 = 'y' * 21
            elif self.kind == 'field':
                r.cx_1 = 'y' * 200
            elif self.kind == 'message':
                r.pid.pid_8 = 'y' * 21
            else:
                r.in1.in1_15 = 'y' * 21

    def observe(self, pool):
        o = {}
        for who in ('S', 'T'):
            o[who] = (hist.er7(pool[who]), report(pool[who]))
        o['out'] = pool['out'][0]
        return o

    def check(self, res, ctx):
        op = ctx.op
        outs = ctx.after['out']
        s, t = outs['S'], outs['T']
        b, a = ctx.before, ctx.after
        point = {'sid': self.sid, 'hist': [list(o) for o in ctx.hist + (op,)]}
        base = 'hist|%s|%s' % (self.kind, op[0])
        # lock step only while the twins agree
        if b['S'] != b['T']:
            res.dims['transitions from diverged twins (not judged)'] += 1
            return
        if op[0] == 'write_kept' and s[0] == 'raise' and s[1] == 'LookupError':
            return
        must = {'x_overflow': 'cardinality-overflow', 'x_kept_overflow': 'cardinality-overflow-through-kept-proxy', 'x_foreign': 'foreign-child', 'x_unknown': 'unknown-child', 'x_dtoverride': 'datatype-override',
                'x_invalid': 'invalid-value', 'x_overlong': 'overlong-value', 'x_dtnone': 'datatype-cleared-then-overridden'}.get(op[0])
        if must:
            res.nontrivial += 1
        if s[0] == 'ok':
            if must:
                res.violation('strict-admits|%s|%s' % (must, self.kind), '%s: STRICT accepts %r after %r' % (self.sid, op, list(ctx.hist)), point, ctx.depth)
                return
            if t[0] != 'ok':
                res.violation('tolerant-rejects|%s|%s' % (base, t[1]), '%s: %r after %r accepted by STRICT, TOLERANT raises %s' % (self.sid, op, list(ctx.hist), t[1]), point, ctx.depth)
                return
            if a['S'][0] != a['T'][0]:
                ls = sorted(refmodel.seg_lines(a['S'][0][1])) if a['S'][0][0] == 'ok' else None
                lt = sorted(refmodel.seg_lines(a['T'][0][1])) if a['T'][0][0] == 'ok' else None
                kind = 'er7-segment-order-only' if ls is not None and ls == lt and self.kind in ('message', 'group') else 'er7-differs'
                res.violation('%s|%s' % (kind, base if kind == 'er7-differs' else 'hist|' + self.kind), '%s: after %r + %r STRICT encodes %r, TOLERANT %r' % (self.sid, list(ctx.hist), op, a['S'][0], a['T'][0]), point, ctx.depth)
                return
            if a['S'][1] != a['T'][1]:
                res.violation('report-differs|%s' % base, '%s: after %r + %r validation reports differ: %r vs %r'
                              % (self.sid, list(ctx.hist), op, str(a['S'][1])[:150], str(a['T'][1])[:150]), point, ctx.depth)
                return
            rep = a['S'][1]
            if rep[0] != 'raise':
                other = [e for e in rep[1] if not e.startswith('Missing required child')]
                if other:
                    res.violation('strict-admits|validator-error|%s|%s' % (self.kind, c04norm(other[0])),
                                  '%s: after %r + %r the STRICT element draws validator error %r' % (self.sid, list(ctx.hist), op, other[0]), point, ctx.depth)
                    return
            res.classes['strict-subset-ok'] += 1
        else:
            # which exception class a refusal uses is not part of this property (C15 covers parser input)
            res.classes['strict-rejects:%s' % s[1]] += 1


A = c09
SPECS = {}
for _s in [TwinSpec('seg', 'segment', 'PID', 'PID|1||A~B||X^Y', A.PID_NAMES, A.PID_VALUES, A.PID_MAX),
           TwinSpec('seg-empty', 'segment', 'PID', None, A.PID_NAMES, A.PID_VALUES, A.PID_MAX),
           TwinSpec('fld', 'field', 'PID_3', 'I^^^AA', A.FLD_NAMES, A.FLD_VALUES, A.FLD_MAX),
           TwinSpec('msg', 'message', 'ADT_A01', A.MSG, A.MSG_NAMES, A.MSG_VALUES, A.MSG_MAX),
           TwinSpec('grp', 'group', 'ADT_A01_INSURANCE', 'IN1|1|A\rIN3|1', A.GRP_NAMES, A.GRP_VALUES, A.GRP_MAX)]:
    SPECS[_s.sid] = _s


def units(tier):
    us = []
    for v in VERSIONS:
        segs = tables.segment_names(v)
        if tier == 'quick' and v not in ('2.5', '2.7'):
            segs = segs[::3]
        for s in segs:
            us.append((v, s))
    return us


def run_unit(unit, tier):
    res = Result()
    seg_unit(unit[0], unit[1], res, tier)
    res.expected_size = res.enumerated
    return res


def run(tier, seed, extra):
    total = common.run_units(run_unit, common.rotate(units(tier), seed), tier)
    depth = 2 if tier == 'quick' else 3
    sids = common.rotate(sorted(SPECS), seed)
    out = hist.bfs_many(__name__, sids, depth, tier, total)
    per = {sid: out[sid][1] for sid in sids}
    extra['bounds'] = {'E1_segments': 'all segments of 2.5 and 2.7, every third of the other versions' if tier == 'quick' else 'all',
                       'E2_depth': depth, 'E2_roots': sids, 'E2_states_per_depth': per}
    total.sample({'E2 roots': sids, 'states_per_depth': per}, cap=10)
    return total


def replay(point, res):
    if 'sid' in point:
        hist.replay_history(__name__, point['sid'], point['hist'], res)
    else:
        seg_unit(point['v'], point['seg'], res, 'thorough')
