"""C06 — escaping is delimiter-safe and idempotent for every delimiter set.

Engine E1 (bounded-exhaustive grid).  Enumerated:
  A. every string up to length N over a role-relative alphabet (each delimiter, the escape
     character, the letters E F H L and ordinary x) x every distinct textual datatype class object
     of the 12 versions x the default delimiter sets (with and without truncation for >= 2.7);
  B. every injective assignment of the delimiter roles to a punctuation pool with regex-special
     members x every string up to length M x one class per escaping family;
  C. end to end: every string up to length 3 assigned as a datatype object to leaves of a
     populated message with custom delimiters; separator counts seen by the reference decoder
     must not change; a leaf parsed from escaped text re-encodes to the same text.
Oracle: reference tokenizer (left-to-right scan).
"""
from __future__ import annotations

import itertools
import math

from .. import common, refmodel
from ..common import Result, libs, VERSIONS

ID = 'C06'
ENGINE = 'E1 grid'
RULE = ('all strings up to the length bound over the role-relative alphabet x distinct textual datatype class objects '
        'x delimiter sets; a case is non-trivial when the input contains at least one delimiter or escape character; '
        'distinct = distinct (class family, delimiter set, input) triples')
ASSUMPTIONS = [
    'strings longer than the bound and characters outside the alphabet are not explored',
    'escape letters H N F S T R E (L from 2.7) are represented by E, F, H, L: the code sees them through one character class',
    'multi-character escape sequences (\\.br\\, \\Xhh\\, \\Cxxyy\\, \\Zxx\\) are outside the property alphabet',
    'highlights are left None (not part of the statement)',
    're, str.replace treated as atomic and correct',
]

ROLES = ('FIELD', 'COMPONENT', 'SUBCOMPONENT', 'REPETITION', 'ESCAPE')
LETTERS_BASE = 'HNFSTRE'
LETTERS_27 = 'HNFSTREL'


def textual_classes():
    """[(family, classname, cls, is27)] deduplicated by identity."""
    from hl7apy.base_datatypes import TextualDataType
    seen = {}
    out = []
    for v in VERSIONS:
        for n, c in sorted(libs()[v].BASE_DATATYPES.items()):
            if isinstance(c, type) and issubclass(c, TextualDataType) and id(c) not in seen:
                seen[id(c)] = 1
                out.append((v, n, c))
    return out


def versions_of(cls):
    return [v for v in VERSIONS if any(c is cls for c in libs()[v].BASE_DATATYPES.values())]


def alphabet(ec):
    sym = [ec['FIELD'], ec['COMPONENT'], ec['SUBCOMPONENT'], ec['REPETITION']]
    if 'TRUNCATION' in ec:
        sym.append(ec['TRUNCATION'])
    sym += [ec['ESCAPE'], 'E', 'F', 'H', 'L', 'x']
    return sym


def strings(sym, n):
    yield ''
    for ln in range(1, n + 1):
        for t in itertools.product(sym, repeat=ln):
            yield ''.join(t)


def n_strings(k, n):
    return sum(k ** i for i in range(0, n + 1))


def tokenize(s, ec, letters):
    """Left-to-right scan.  Returns (raw_delims, lone_escapes): counts of raw delimiter characters and of
    escape characters that do not start an 'esc LETTER esc' sequence."""
    esc = ec['ESCAPE']
    delims = {ec['FIELD'], ec['COMPONENT'], ec['SUBCOMPONENT'], ec['REPETITION']}
    if 'TRUNCATION' in ec and 'L' in letters:
        delims.add(ec['TRUNCATION'])
    i, raw, lone = 0, 0, 0
    n = len(s)
    while i < n:
        ch = s[i]
        if ch == esc:
            if i + 2 < n + 0 and s[i + 1] in letters and s[i + 2] == esc:
                i += 3
                continue
            lone += 1
        elif ch in delims:
            raw += 1
        i += 1
    return raw, lone


def in_escaped_language(s, ec, letters):
    raw, lone = tokenize(s, ec, letters)
    return raw == 0 and lone == 0


def role_pattern(x, ec):
    inv = {ec[r]: '<%s>' % r[0:3] for r in ROLES}
    if 'TRUNCATION' in ec:
        inv[ec['TRUNCATION']] = '<TRU>'
    return ''.join(inv.get(ch, ch) for ch in x)


def make(cls, x):
    try:
        return cls(x)
    except ValueError:
        return None   # TN refuses text that is not a telephone number: outside the domain


def check_string(res, fam, cls, letters, ec, x, ecname):
    obj = make(cls, x)
    if obj is None:
        res.dims['refused-by-constructor'] += 1
        return
    res.evaluations += 1
    res.transitions += 2
    point = {'kind': 'A', 'class': fam, 'ec': ec, 'x': x}
    pat = role_pattern(x, ec)
    try:
        out = obj.to_er7(ec)
    except Exception as e:
        res.violation('encoder-raises|%s|%s|%s' % (fam, type(e).__name__, pat), 'to_er7(%r) raises %s: %s (%s)' % (x, type(e).__name__, e, ecname),
                      point, rank=len(x))
        res.classes['encoder-raises'] += 1
        return
    raw, lone = tokenize(out, ec, letters)
    special = any(ch in x for ch in ec.values() if ch != '\r')
    if special:
        res.nontrivial += 1
    res.validated += 1
    if raw:
        res.violation('raw-delimiter|%s|%s' % (fam, pat), 'to_er7(%r) = %r contains a raw delimiter (%s)' % (x, out, ecname),
                      point, rank=len(x))
        res.classes['raw-delimiter'] += 1
    if lone:
        res.violation('lone-escape|%s|%s' % (fam, pat), 'to_er7(%r) = %r contains an escape character outside any '
                      'escape sequence (%s)' % (x, out, ecname), point, rank=len(x))
        res.classes['lone-escape'] += 1
    out2 = make(cls, out)
    if out2 is not None:
        try:
            out2 = out2.to_er7(ec)
        except Exception as e:
            out2 = '!raises %s' % type(e).__name__
        if out2 != out:
            res.violation('non-idempotent|%s|%s' % (fam, pat), 'e(x)=%r but e(e(x))=%r for x=%r' % (out, out2, x),
                          point, rank=len(x))
            res.classes['non-idempotent'] += 1
    if in_escaped_language(x, ec, letters):
        if out != x:
            res.violation('escaped-text-changed|%s|%s' % (fam, pat), 'already escaped %r re-encoded as %r' % (x, out),
                          point, rank=len(x))
            res.classes['escaped-text-changed'] += 1
        else:
            res.classes['escaped-unchanged' if special else 'plain-unchanged'] += 1
    elif not raw and not lone:
        res.classes['escaped-now-safe'] += 1


def check_highlights(res, fam, cls, letters, ec, x, ecname):
    """every range (a, b) of x highlighted: the encoding is the encoding of the three pieces with the two highlight
    sequences between them (x holds no escape character, so the pieces are encoded independently)"""
    esc = ec['ESCAPE']
    n_cases = 0
    for a in range(0, len(x)):
        for b in range(a + 1, len(x) + 1):
            res.evaluations += 1
            res.transitions += 1
            n_cases += 1
            point = {'kind': 'H', 'class': fam, 'ec': ec, 'x': x, 'range': [a, b]}
            try:
                want = cls(x[:a]).to_er7(ec) + esc + 'H' + esc + cls(x[a:b]).to_er7(ec) + esc + 'N' + esc + cls(x[b:]).to_er7(ec)
                got = cls(x, highlights=((a, b),)).to_er7(ec)
            except Exception as e:
                res.violation('highlight-raises|%s|%s' % (fam, type(e).__name__), '%s(%r, highlights=((%d, %d),)).to_er7() raises %s: %s' % (cls.__name__, x, a, b, type(e).__name__, e),
                              point, rank=len(x))
                continue
            res.validated += 1
            if any(ch in x[:b] for ch in ec.values() if ch != '\r'):
                res.nontrivial += 1
            if got != want:
                res.violation('highlight-misplaced|%s|%s' % (fam, role_pattern(x, ec)), '%s(%r, highlights=((%d, %d),)).to_er7() = %r, the pieces encode to %r (%s)'
                              % (cls.__name__, x, a, b, got, want, ecname), point, rank=len(x))
            else:
                res.classes['highlight-in-place'] += 1
    return n_cases


def family_name(v, n, cls):
    return '%s.%s' % (cls.__module__.replace('hl7apy.', ''), cls.__name__)


def letters_for(cls):
    return LETTERS_27 if cls.__module__.startswith('hl7apy.v2_7') else LETTERS_BASE


def ec_sets_for(cls):
    """(name, delimiter set, escape letters) contexts applicable to the versions that use the class.
    From 2.7 the truncation character (when the set has one) is a delimiter and L an escape letter."""
    vs = versions_of(cls)
    sets = []
    if any(v < '2.7' for v in vs):
        sets.append(('default', refmodel.default_ec('2.5'), LETTERS_BASE))
    if any(v >= '2.7' for v in vs):
        sets.append(('default27', refmodel.default_ec('2.7'), LETTERS_27))
        sets.append(('default27-no-truncation', refmodel.default_ec('2.5'), LETTERS_27))
    return sets


POOL6 = ['|', '^', '$', '\\', '*', '.']
POOL8 = ['|', '^', '$', '\\', '*', '.', '[', '(']


def assignments(pool, nroles):
    return list(itertools.permutations(pool, nroles))


def ec_from(t):
    ec = {'FIELD': t[0], 'COMPONENT': t[1], 'SUBCOMPONENT': t[2], 'REPETITION': t[3], 'ESCAPE': t[4],
          'SEGMENT': '\r', 'GROUP': '\r'}
    if len(t) > 5:
        ec['TRUNCATION'] = t[5]
    return ec


# ------------------------------------------------------------------------------------------- units

def units(tier):
    nA = 5 if tier == 'quick' else 6
    nB = 3          # thorough widens the pool (8 characters: 26,880 assignments), not the strings
    pool = POOL6 if tier == 'quick' else POOL8
    us = []
    classes = textual_classes()
    deep = {}
    for ci, (v, n, cls) in enumerate(classes):
        deep.setdefault((letters_for(cls), cls.__name__ in ('TN', 'WD')), ci)
    deep = set(deep.values())
    for ci, (v, n, cls) in enumerate(classes):
        for ei, (ecname, ec, letters) in enumerate(ec_sets_for(cls)):
            sym = alphabet(ec)
            # shard A by first symbol; thorough: length 6 for one class per escaping family (the classes of a family share
            # one escaping routine), length 5 for the others
            n_here = nA if (tier == 'quick' or ci in deep) else 5
            for first in range(len(sym)):
                us.append(('A', ci, ei, first, n_here))
    # B: one class per escaping family (base / 2.7) is enough for the role-assignment dimension, plus TN, WD
    fam_reps = {}
    for ci, (v, n, cls) in enumerate(classes):
        fam_reps.setdefault((letters_for(cls), cls.__name__ in ('TN', 'WD')), ci)
    for (letters, _), ci in sorted(fam_reps.items()):
        nro = 6 if letters == LETTERS_27 else 5
        asg = assignments(pool, nro)
        if letters == LETTERS_27:
            asg = asg + assignments(pool, 5)
        chunk = 90
        for s in range(0, len(asg), chunk):
            us.append(('B', ci, s, min(s + chunk, len(asg)), nB, len(pool)))
    for v in ('2.5', '2.7'):
        for k in range(3):
            us.append(('C', v, k))
    # D: order dependence - class B judged after class A has encoded with the same delimiter set in the same process
    # (every unit runs in a fresh process, so "first use" of a class / set is reproducible)
    for a in range(len(classes)):
        for b in range(len(classes)):
            if a != b:
                us.append(('D', a, b, 3 if tier == 'quick' else 4))
    for ci, (v, n, cls) in enumerate(classes):
        for oi in range(math.factorial(len(ec_sets_for(cls)))):
            us.append(('E', ci, oi, 3 if tier == 'quick' else 4))
    return us


def run_unit(unit, tier):
    res = Result()
    classes = textual_classes()
    if unit[0] == 'A':
        _, ci, ei, first, n = unit
        v, nm, cls = classes[ci]
        ecname, ec, letters = ec_sets_for(cls)[ei]
        sym = alphabet(ec)
        fam = family_name(v, nm, cls) + ('@2.7+' if letters == LETTERS_27 else '@<2.7')
        cnt = 0
        if first == 0:
            check_string(res, fam, cls, letters, ec, '', ecname)
            cnt += 1
            # long values: 40 times each symbol, and the alphabet cycled to 120 characters (more things to escape in
            # one value than any counter or buffer sized for ordinary values)
            for c in sym:
                check_string(res, fam, cls, letters, ec, c * 40, ecname)
                cnt += 1
            check_string(res, fam, cls, letters, ec, (''.join(sym) * 12)[:120], ecname)
            cnt += 1
            # highlight ranges over every string <= 4 of {delimiters, two letters} (no escape character)
            if make(cls, 'a') is not None and hasattr(make(cls, 'a'), 'highlights'):
                hsym = [c for c in sym if c != ec['ESCAPE'] and c not in 'EFHL'] + ['E']
                hn = 3 if tier == 'quick' else 4
                for x in strings(hsym, hn):
                    if x:
                        cnt += check_highlights(res, fam, cls, letters, ec, x, ecname)
                res.expected_size += sum(len(hsym) ** L * L * (L + 1) // 2 for L in range(1, hn + 1))
        for ln in range(0, n):
            for t in itertools.product(sym, repeat=ln):
                x = sym[first] + ''.join(t)
                check_string(res, fam, cls, letters, ec, x, ecname)
                cnt += 1
        res.enumerated += cnt
        res.states += cnt
        res.expected_size += sum(len(sym) ** i for i in range(0, n)) + ((2 + len(sym)) if first == 0 else 0)
        res.dims['A:class=%s' % fam] += cnt
        res.sample({'class': fam, 'ec': ecname, 'x': sym[first] + sym[-6] + 'E', 'out': cls(sym[first] + sym[-6] + 'E').to_er7(ec)
                    if make(cls, sym[first] + sym[-6] + 'E') else None})
    elif unit[0] == 'B':
        _, ci, lo, hi, n, npool = unit
        v, nm, cls = classes[ci]
        letters = letters_for(cls)
        fam = family_name(v, nm, cls) + ('@2.7+' if letters == LETTERS_27 else '@<2.7')
        pool = POOL6 if npool == 6 else POOL8
        nro = 6 if letters == LETTERS_27 else 5
        asg = assignments(pool, nro)
        if letters == LETTERS_27:
            asg = asg + assignments(pool, 5)
        for t in asg[lo:hi]:
            ec = ec_from(t)
            sym = alphabet(ec)
            cnt = 0
            for x in strings(sym, n):
                check_string(res, fam, cls, letters, ec, x, 'custom')
                cnt += 1
            res.enumerated += cnt
            res.states += cnt
            res.expected_size += n_strings(len(sym), n)
            res.dims['B:delimiter-sets'] += 1
    elif unit[0] == 'D':
        _, a, b, n = unit
        va, na, A = classes[a]
        vb, nb, B = classes[b]
        for ecname, ec, letters in ec_sets_for(B):
            sym = alphabet(ec)
            for x in strings(sym, 2):
                o = make(A, x)
                if o is not None:
                    try:
                        o.to_er7(ec)
                    except Exception:
                        pass
            fam = family_name(vb, nb, B) + ('@2.7+' if letters == LETTERS_27 else '@<2.7') + '|after-' + A.__module__.replace('hl7apy.', '') + '.' + A.__name__
            cnt = 0
            for x in strings(sym, n):
                check_string(res, fam, B, letters, ec, x, ecname + ' after ' + A.__name__)
                cnt += 1
            res.enumerated += cnt
            res.states += cnt
            res.expected_size += n_strings(len(sym), n)
        res.dims['D:ordered class pairs'] += 1
    elif unit[0] == 'E':
        # the same class under its delimiter sets one after the other, in both orders (sets differing only in the truncation character)
        # (one order per unit, i.e. per fresh process: what the class keeps from the first set must not reach the second);
        # the strings range over the union of the sets' alphabets, so a character that is a delimiter in one set is
        # a plain character in the other
        _, ci, oi, n = unit
        v, nm, cls = classes[ci]
        ctxs = ec_sets_for(cls)
        import itertools as _it
        order = list(_it.permutations(range(len(ctxs))))[oi]
        sym = []
        for ecname, ec, letters in ctxs:
            sym += [c for c in alphabet(ec) if c not in sym]
        for k in order:
            ecname, ec, letters = ctxs[k]
            fam = family_name(v, nm, cls) + ('@2.7+' if letters == LETTERS_27 else '@<2.7') + '|set-order'
            cnt = 0
            for x in strings(sym, n):
                check_string(res, fam, cls, letters, ec, x, ecname + ' in order %r' % (order,))
                cnt += 1
            res.enumerated += cnt
            res.states += cnt
            res.expected_size += n_strings(len(sym), n)
        res.dims['E:set orders'] += 1
    else:
        _, v, k = unit
        end_to_end(res, v, k)
    return res


# ------------------------------------------------------------------------------------------- end to end

E2E_ECS = [
    {'FIELD': '!', 'COMPONENT': '$', 'SUBCOMPONENT': '*', 'REPETITION': '.', 'ESCAPE': '@'},
    {'FIELD': '|', 'COMPONENT': '^', 'SUBCOMPONENT': '&', 'REPETITION': '~', 'ESCAPE': '\\'},
    {'FIELD': '.', 'COMPONENT': '[', 'SUBCOMPONENT': '(', 'REPETITION': '*', 'ESCAPE': '^'},
]


def end_to_end(res, v, k):
    from hl7apy.core import Message
    from hl7apy.parser import parse_field, parse_segment
    ec = dict(E2E_ECS[k], SEGMENT='\r', GROUP='\r')
    if v >= '2.7':
        ec['TRUNCATION'] = '#'
    lib = libs()[v]
    letters = LETTERS_27 if v >= '2.7' else LETTERS_BASE
    m = Message('ADT_A01', version=v, encoding_chars=dict(ec))
    m.pid.pid_5 = 'A' + ec['COMPONENT'] + 'B'
    m.pid.pid_3 = 'I' + ec['REPETITION'] + 'J'
    m.pid.pid_23 = 'M'
    base = m.to_er7()
    base_counts = refmodel.count_separators(base, ec)
    nseg = len(refmodel.seg_lines(base))
    sym = alphabet(ec)
    ST, IS_ = lib.BASE_DATATYPES['ST'], lib.BASE_DATATYPES['IS']
    # the same segment on its own (its own delimiters are the defaults), encoded with the set passed explicitly: must give what
    # the segment inside the message gives
    from hl7apy.core import Segment
    solo = Segment('PID', version=v)
    solo.pid_5 = 'A^B'
    solo.pid_3 = 'I' + ec['REPETITION'] + 'J'      # one field: assigned as a whole, the repetition separator is text
    solo.pid_23 = 'q'
    solo.pid_5.xpn_2.value = ST('q')
    solo.pid_3.cx_4.hd_2.value = ST('q')
    m.pid.pid_5.xpn_2.value = ST('q')
    m.pid.pid_3.cx_4.hd_2.value = ST('q')
    m.pid.pid_23.value = ST('q')
    # the explicit set is the dictionary read from the message; another live message with the default set is read in
    # between (the dictionary belongs to the caller once returned)
    held = m.encoding_chars
    other = Message('ADT_A01', version=v)
    # leaf at component level (xpn_2 is ST) and at subcomponent level (cx_4.hd_1 / hd_2 is ST)
    cnt = 0
    for x in strings(sym, 3):
        if x == '':
            continue
        cnt += 1
        for where in ('comp', 'sub', 'field'):
            res.evaluations += 1
            res.transitions += 2
            if where == 'comp':
                m.pid.pid_5.xpn_2.value = ST(x)
            elif where == 'sub':
                m.pid.pid_3.cx_4.hd_2.value = ST(x)
            else:
                m.pid.pid_23.value = ST(x)
            out = m.to_er7()
            counts = refmodel.count_separators(out, ec)
            target = {'comp': lambda e: e.pid_5.xpn_2, 'sub': lambda e: e.pid_3.cx_4.hd_2, 'field': lambda e: e.pid_23}[where]
            target(solo).value = ST(x)
            try:
                other.encoding_chars
                solo_out = solo.to_er7(held)
            except Exception as e:
                solo_out = '!%s' % exc_class(e)
            target(solo).value = ST('q')
            inside = [l for l in refmodel.seg_lines(out) if l.startswith('PID')]
            res.transitions += 1
            if [solo_out] != inside:
                res.violation('explicit-set-differs|%s|%s' % (where, role_pattern(x, ec)),
                              'PID with ST(%r) at %s level: inside a message built with the set it encodes %r, on its own with to_er7(the set) %r'
                              % (x, where, inside, solo_out), {'kind': 'C', 'v': v, 'k': k, 'x': x, 'where': where}, rank=len(x))
            # the new leaf may add the separators needed to reach its own position; compare against the same
            # assignment with a plain value
            if where == 'comp':
                m.pid.pid_5.xpn_2.value = ST('q')
            elif where == 'sub':
                m.pid.pid_3.cx_4.hd_2.value = ST('q')
            else:
                m.pid.pid_23.value = ST('q')
            plain = m.to_er7()
            pc = refmodel.count_separators(plain, ec)
            res.validated += 1
            if counts != pc or len(refmodel.seg_lines(out)) != nseg:
                res.violation('structure-changed|%s|%s' % (where, role_pattern(x, ec)),
                              'assigning ST(%r) at %s level changed separator counts %r -> %r' % (x, where, pc, counts),
                              {'kind': 'C', 'v': v, 'k': k, 'x': x, 'where': where}, rank=len(x))
                res.classes['structure-changed'] += 1
            else:
                res.classes['structure-kept'] += 1
        # parsed leaf re-encodes to the text it came from (only meaningful for escaped text)
        if in_escaped_language(x, ec, letters):
            res.evaluations += 1
            res.transitions += 2
            f = parse_field(x, 'PID_23', version=v, encoding_chars=ec)
            back = f.to_er7(ec)
            res.validated += 1
            if back != x:
                res.violation('parsed-leaf-changed|%s' % role_pattern(x, ec), 'parse_field(%r).to_er7() = %r' % (x, back),
                              {'kind': 'C', 'v': v, 'k': k, 'x': x, 'where': 'parse'}, rank=len(x))
            else:
                res.classes['parsed-leaf-kept'] += 1
    res.enumerated += cnt
    res.states += cnt
    res.expected_size += n_strings(len(sym), 3) - 1
    res.dims['C:end-to-end v=%s ec=%d' % (v, k)] += cnt
    res.sample({'end_to_end': v, 'ec': E2E_ECS[k], 'message': base})


def run(tier, seed, extra):
    us = common.rotate(units(tier), seed)
    extra['bounds'] = {'A_max_len': 5 if tier == 'quick' else '6 for one class per escaping family, 5 for the others', 'B_max_len': 3,
                       'B_pool': POOL6 if tier == 'quick' else POOL8, 'C_max_len': 3,
                       'classes': [family_name(*c) for c in textual_classes()]}
    return common.run_units(run_unit, us, tier, fresh_process_per_unit=True)


def replay(point, res):
    if point['kind'] == 'A' and '|' in point['class']:
        # order-dependence units do not reproduce from one point: the runner re-runs the recorded unit in a fresh process
        return
    if point['kind'] == 'A':
        for v, n, cls in textual_classes():
            for letters in (LETTERS_BASE, LETTERS_27):
                fam = family_name(v, n, cls) + ('@2.7+' if letters == LETTERS_27 else '@<2.7')
                if fam == point['class']:
                    check_string(res, fam, cls, letters, point['ec'], point['x'], 'replay')
    elif point['kind'] == 'H':
        for v, n, cls in textual_classes():
            for letters in (LETTERS_BASE, LETTERS_27):
                fam = family_name(v, n, cls) + ('@2.7+' if letters == LETTERS_27 else '@<2.7')
                if fam == point['class']:
                    check_highlights(res, fam, cls, letters, point['ec'], point['x'], 'replay')
    else:
        # re-run the whole (small) end-to-end unit; keys are per input
        end_to_end(res, point['v'], point['k'])
