"""C07 — a message's encoding characters govern its entire encoding.

Engine E1.  versions x all injective assignments of the 5 roles (and of the 6 roles from v2.7) to
a punctuation pool x one message recipe with repetitions, components, subcomponents and a leaf
whose text contains every delimiter of the set, built through Message(..., encoding_chars=ec) and,
separately, by parse_message of the reference encoding; plus every single-defect set.
Oracle: reference encoder with that set (string equality), read-back of encoding_chars on the
message and on every descendant, re-parse.
"""
from __future__ import annotations

import itertools

from .. import common, refmodel, tables
from ..common import Result, VERSIONS, libs, exc_class, FIXED_MSH7

ID = 'C07'
ENGINE = 'E1 grid'
RULE = ('one case = (version, delimiter set, construction path) or one defective set; distinct by construction; '
        'non-trivial = the set differs from the default one')
ASSUMPTIONS = [
    'delimiters drawn from a punctuation pool of 6 (thorough 8) characters including regex-special ones; all roles distinct so '
    'that any transposition is observable',
    'one message recipe per version (shapes chosen from the version tables: a repeated field, a component pair, a subcomponent '
    'pair, a text leaf containing every delimiter)',
]

POOL6 = ['|', '^', '$', '\\', '*', '?']
POOL8 = ['|', '^', '$', '\\', '*', '?', '[', '+']
ROLES5 = ('FIELD', 'COMPONENT', 'SUBCOMPONENT', 'REPETITION', 'ESCAPE')
ROLES6 = ROLES5 + ('TRUNCATION',)


def ec_of(t):
    ec = dict(zip(ROLES6 if len(t) == 6 else ROLES5, t))
    ec['SEGMENT'] = '\r'
    ec['GROUP'] = '\r'
    return ec


_SHAPES = {}


def shapes(v):
    """pick from the tables: (complex field with a component that has subcomponents, text leaf field)"""
    if v in _SHAPES:
        return _SHAPES[v]
    rows = [(i, fr) for i, fr in tables.field_rows(v, 'PID') if i and fr.ok]
    sub = comp = text = None
    for i, fr in rows:
        if fr.kind == 'leaf':
            if fr.datatype == 'ST' and text is None and i > 3:
                text = i
            continue
        if comp is None and len(fr.children) >= 2 and all(c.kind == 'leaf' for c in fr.children[:2]) and i != 3:
            comp = (i, tables.comp_index(fr.children[0].name), tables.comp_index(fr.children[1].name))
        for cr in fr.children:
            if cr.kind != 'leaf' and len(cr.children) >= 2 and sub is None and i != 3 and (comp is None or comp[0] != i):
                sub = (i, tables.comp_index(cr.name), fr.children[0].kind == 'leaf')
    _SHAPES[v] = (sub, comp, text)
    return _SHAPES[v]


_LAZY = {}


def lazy_site(v):
    """(group, segment, field number, two leaf component numbers) reachable only through two lazily created levels"""
    if v in _LAZY:
        return _LAZY[v]
    site = None
    from .. import structures as st
    for c in st.children_of(tables.msg_ref(v, 'ADT_A01')):
        if len(c) == 4 and c[3] == 'GRP' and c[1] is not None:
            for s_ in st.children_of(c[1]):
                if len(s_) == 4 and s_[3] == 'SEG' and s_[1] is not None and not tables.segment_anomaly(v, s_[0]) and not tables.row_anomalies(v, s_[0]):
                    for i, fr in tables.field_rows(v, s_[0]):
                        if i and fr.ok and fr.kind != 'leaf' and len(fr.children) >= 2 and all(x.kind == 'leaf' for x in fr.children[:2]):
                            site = (c[0], s_[0], i, tables.comp_index(fr.children[0].name), tables.comp_index(fr.children[1].name))
                            break
                if site:
                    break
        if site:
            break
    _LAZY[v] = site
    return site


def escape_ref(text, ec):
    """reference escaping of a text without pre-existing escape sequences"""
    m = {ec['FIELD']: 'F', ec['COMPONENT']: 'S', ec['SUBCOMPONENT']: 'T', ec['REPETITION']: 'R', ec['ESCAPE']: 'E'}
    if 'TRUNCATION' in ec:
        m[ec['TRUNCATION']] = 'L'
    e = ec['ESCAPE']
    return ''.join(e + m[ch] + e if ch in m else ch for ch in text)


def msh9(v):
    rows = dict(tables.field_rows(v, 'MSH'))
    return {1: 'ADT', 2: 'A01', 3: 'ADT_A01'} if len(rows[9].children) >= 3 else {1: 'ADT', 2: 'A01'}


def expected(v, ec):
    sub, comp, text = shapes(v)
    special = 'a' + ''.join(ec[r] for r in ROLES5) + (ec.get('TRUNCATION', '') if v >= '2.7' else '') + 'z'
    msh = {3: ['APP'], 7: [FIXED_MSH7], 9: [msh9(v)], 10: ['1'], 11: ['P'], 12: [v]}
    pid = {3: ['I1', 'I2']}
    if sub:
        i, j, first_leaf = sub
        rep = {1: 'K'} if first_leaf and j != 1 else {}
        rep[j] = {1: 'A', 2: 'U'}
        pid[i] = [rep]
    if comp:
        i, j1, j2 = comp
        pid[i] = [{j1: 'F', j2: 'G'}]
    if text:
        pid[text] = [escape_ref(special, ec)]
    segs = [('MSH', msh), ('PID', pid)]
    site = lazy_site(v)
    if site:
        g, s_, i, j1, j2 = site
        segs.append((s_, {i: [{j1: 'P', j2: 'Q'}]}))
    return refmodel.enc_message(segs, ec), special


def build(v, ec, special, how='constructor'):
    from hl7apy.core import Message
    sub, comp, text = shapes(v)
    C, S = ec['COMPONENT'], ec['SUBCOMPONENT']
    if how == 'constructor':
        m = Message('ADT_A01', version=v, encoding_chars=dict(ec))
    else:
        # an existing message (default set) is given the set through its public attribute before it is filled
        m = Message('ADT_A01', version=v)
        m.encoding_chars = dict(ec)
    m.msh.msh_3 = 'APP'
    m.msh.msh_9 = C.join(msh9(v)[k] for k in sorted(msh9(v)))
    m.msh.msh_10 = '1'
    m.msh.msh_11 = 'P'
    m.pid.pid_3 = 'I1'
    m.pid.add_field('pid_3').value = 'I2'
    if sub:
        i, j, first_leaf = sub
        val = C * (j - 1) + 'A' + S + 'U'
        if first_leaf and j != 1:
            val = 'K' + val
        setattr(m.pid, 'pid_%d' % i, val)
    if comp:
        i, j1, j2 = comp
        setattr(m.pid, 'pid_%d' % i, C * (j1 - 1) + 'F' + C * (j2 - j1) + 'G')
    if text:
        ST = libs()[v].BASE_DATATYPES['ST']
        getattr(m.pid, 'pid_%d' % text).value = ST(special)
    site = lazy_site(v)
    if site:
        # assignment through a group and a segment that do not exist yet (two lazily created levels)
        g, s_, i, j1, j2 = site
        setattr(getattr(getattr(m, g.lower()), s_.lower()), '%s_%d' % (s_.lower(), i), C * (j1 - 1) + 'P' + C * (j2 - j1) + 'Q')
    return m


def descendants(e, depth=0):
    yield e
    if depth < 6:
        for c in e.children:
            for d in descendants(c, depth + 1):
                yield d


def same_ec(got, ec, v):
    keys = set(ROLES5) | ({'TRUNCATION'} if ('TRUNCATION' in ec and v >= '2.7') else set())
    return all(got.get(k) == ec.get(k) for k in keys) and ('TRUNCATION' in got) == ('TRUNCATION' in keys)


def fam(v):
    return 'v>=2.7' if v >= '2.7' else 'v<2.7'


def check_set(res, v, t):
    from hl7apy.parser import parse_message
    ec = ec_of(t)
    point = {'kind': 'set', 'v': v, 't': list(t)}
    res.evaluations += 2
    res.enumerated += 1
    res.states += 1
    res.transitions += 6
    if ''.join(t[:5]) != '|^&~\\':
        res.nontrivial += 1
    want, special = expected(v, ec)
    with_trunc = len(t) == 6
    shape = 'trunc' if with_trunc else 'plain'
    try:
        m = build(v, ec, special)
        got = m.to_er7()
        mllp = m.to_mllp()
    except Exception as e:
        res.violation('build-raises|%s|%s|%s' % (fam(v), shape, exc_class(e)), 'Message(encoding_chars=%r) v%s: %s: %s' % (t, v, exc_class(e), e), point, 1)
        return
    res.validated += 1
    if got != want:
        res.violation('separator|build|%s|%s' % (fam(v), shape), 'v%s set %r: to_er7() = %r, reference %r' % (v, t, got, want), point, 1)
        res.classes['encoding-differs'] += 1
    else:
        res.classes['encoding-ok'] += 1
    if mllp != '\x0b' + got + '\r\x1c\r':
        res.violation('mllp|%s' % fam(v), 'to_mllp() does not frame to_er7()', point, 1)
    res.transitions += 2
    try:
        m_a = build(v, ec, special, how='assign')
        got_a = m_a.to_er7()
        ec_a = m_a.encoding_chars
    except Exception as e:
        res.violation('assign-raises|%s|%s|%s' % (fam(v), shape, exc_class(e)), 'message.encoding_chars = %r (v%s) then filled: %s: %s' % (t, v, exc_class(e), e), point, 1)
    else:
        if got_a != want:
            res.violation('separator|assign|%s|%s' % (fam(v), shape), 'v%s set %r assigned to an existing message: to_er7() = %r, reference %r' % (v, t, got_a, want), point, 1)
        elif not same_ec(ec_a, ec, v):
            res.violation('readback|assign|%s|%s' % (fam(v), shape), 'v%s set %r assigned to an existing message reads back as %r' % (v, t, ec_a), point, 1)
        else:
            res.classes['assigned-set-governs'] += 1
    site = lazy_site(v)
    if site:
        from hl7apy.core import Message
        g, s_, i, j1, j2 = site
        m2 = Message('ADT_A01', version=v, encoding_chars=dict(ec))
        try:
            lazy = getattr(getattr(getattr(m2, g.lower()), s_.lower()), '%s_%d' % (s_.lower(), i))
            e = lazy.encoding_chars
            if not same_ec(e, ec, v):
                res.violation('readback|lazy-%s|%s|%s' % ('field', fam(v), shape), 'v%s set %r: a field reached through a group and a segment that do not exist yet '
                              'reports encoding_chars %r' % (v, t, e), point, 2)
        except Exception as x:
            res.violation('readback-raises|lazy|%s' % exc_class(x), 'encoding_chars through lazily created levels raises %s: %s' % (exc_class(x), x), point, 2)
    for d in descendants(m):
        try:
            e = d.encoding_chars
        except Exception as x:
            res.violation('readback-raises|%s|%s' % (type(d).__name__, exc_class(x)), 'encoding_chars of %r raises %s' % (d, x), point, 2)
            break
        if not same_ec(e, ec, v):
            res.violation('readback|%s|%s|%s' % (type(d).__name__, fam(v), shape), 'v%s set %r: %r.encoding_chars = %r' % (v, t, d, e), point, 2)
            break
    # parse path
    try:
        p = parse_message(want)
        back = p.to_er7()
        pec = p.encoding_chars
    except Exception as e:
        res.violation('reparse-raises|%s|%s|%s' % (fam(v), shape, exc_class(e)), 'parse_message(%r): %s: %s' % (want, exc_class(e), e), point, 2)
        return
    res.validated += 1
    if back != want:
        res.violation('reparse|%s|%s' % (fam(v), shape), 'v%s set %r: parse_message(ref).to_er7() = %r, reference %r' % (v, t, back, want), point, 2)
    if not same_ec(pec, ec, v):
        res.violation('reparse-readback|%s|%s' % (fam(v), shape), 'v%s set %r: parsed message reports %r' % (v, t, pec), point, 2)
    # segments that the message structure does not list (a Z segment, a standard segment of another message) are split with
    # the delimiters of MSH-1 / MSH-2 like every other segment
    F, C, S_, R = ec['FIELD'], ec['COMPONENT'], ec['SUBCOMPONENT'], ec['REPETITION']
    extra = ['ZZ1' + F + 'a' + C + 'b' + S_ + 'c' + F + 'd' + R + 'e', 'MSA' + F + 'AA' + F + 'x' + C + 'y']
    for fg in (True, False):
        for pos in (1, 2):
            lines = want.split('\r')
            text2 = '\r'.join(lines[:pos + 1] + extra[pos - 1:pos] + lines[pos + 1:])
            res.transitions += 1
            try:
                p2 = parse_message(text2, find_groups=fg)
                back2 = p2.to_er7()
                bad = [d for d in descendants(p2) if not same_ec(d.encoding_chars, ec, v)]
            except Exception as e:
                if common.is_lib_exc(e) and pos == 2 and fg:
                    res.unspecified['standard segment outside the structure refused by the group finder'] += 1
                    continue
                res.violation('reparse-raises|unlisted-segment|%s|%s' % (fam(v), exc_class(e)), 'parse_message(%r, find_groups=%s): %s: %s'
                              % (text2, fg, exc_class(e), e), point, 3)
                continue
            if back2 != text2:
                res.violation('reparse|unlisted-segment|%s|%s|fg=%s' % (fam(v), shape, fg), 'v%s set %r: parse_message(%r, find_groups=%s).to_er7() = %r'
                              % (v, t, text2, fg, back2), point, 3)
            elif bad:
                res.violation('reparse-readback|unlisted-segment|%s|%s' % (fam(v), type(bad[0]).__name__), 'v%s set %r: %r of a segment outside the structure reports '
                              '%r' % (v, t, bad[0], bad[0].encoding_chars), point, 3)
    if got == want:
        try:
            again = parse_message(got).to_er7()
            if again != got:
                res.violation('reparse|own|%s|%s' % (fam(v), shape), 'parse_message(to_er7()) re-encodes %r' % again, point, 2)
        except Exception as e:
            res.violation('reparse-raises|own|%s|%s' % (fam(v), exc_class(e)), 'parse_message(to_er7()): %s' % e, point, 2)


def defect_sets(v):
    base = {'FIELD': '|', 'COMPONENT': '^', 'SUBCOMPONENT': '&', 'REPETITION': '~', 'ESCAPE': '\\'}
    out = []
    for k in ROLES5:
        d = dict(base)
        del d[k]
        out.append(('missing-%s' % k, d))
    roles = ROLES6 if v >= '2.7' else ROLES5
    full = dict(base, TRUNCATION='#') if v >= '2.7' else dict(base)
    for a, b in itertools.combinations(roles, 2):
        d = dict(full)
        d[b] = d[a]
        out.append(('dup-%s=%s' % (a, b), d))
    out.append(('non-dict-list', ['|', '^', '&', '~', '\\']))
    out.append(('non-dict-str', '|^&~\\'))
    return out


def check_defects(res, v):
    from hl7apy.core import Message
    from hl7apy.exceptions import InvalidEncodingChars
    from hl7apy.parser import parse_message, parse_segment
    from hl7apy import check_encoding_chars, set_default_encoding_chars
    # every defective set is offered twice: as the first thing the process sees, and again after the valid sets it derives
    # from have been used (whatever the checks remember of a valid set must not let a defective one through)
    passes = [(name, d, '') for name, d in defect_sets(v)]
    passes.append(None)
    passes += [(name, d, '|after-valid-use') for name, d in defect_sets(v)]
    for item in passes:
        if item is None:
            base = {'FIELD': '|', 'COMPONENT': '^', 'SUBCOMPONENT': '&', 'REPETITION': '~', 'ESCAPE': '\\'}
            for good in ([dict(base), dict(base, TRUNCATION='#')] if v >= '2.7' else [dict(base)]):
                check_encoding_chars(dict(good))
                Message('ADT_A01', version=v, encoding_chars=dict(good)).to_er7()
                parse_segment('PID|1', version=v, encoding_chars=dict(good))
            continue
        name, d, when = item
        name += when
        for how in ('Message', 'check', 'parse_segment', 'assign'):
            res.evaluations += 1
            res.enumerated += 1
            res.states += 1
            res.transitions += 1
            point = {'kind': 'defect', 'v': v}
            try:
                if how == 'assign':
                    # an existing message (built with its defaults) is given the set through its public attribute
                    Message('ADT_A01', version=v).encoding_chars = (dict(d) if isinstance(d, dict) else d)
                elif how == 'Message':
                    Message('ADT_A01', version=v, encoding_chars=(dict(d) if isinstance(d, dict) else d))
                elif how == 'check':
                    check_encoding_chars(dict(d) if isinstance(d, dict) else d)
                else:
                    parse_segment('PID|1', version=v, encoding_chars=(dict(d) if isinstance(d, dict) else d))
                res.violation('accepts-invalid|%s|%s|%s' % (name, how, fam(v)), 'v%s: defective set %s (%r) is accepted by %s' % (v, name, d, how), point, 0)
                res.classes['defect-accepted'] += 1
            except InvalidEncodingChars:
                res.classes['defect-rejected'] += 1
            except Exception as e:
                res.violation('wrong-exception|%s|%s|%s' % (name, how, exc_class(e)), 'v%s: defective set %s raises %s instead of InvalidEncodingChars' % (v, name, exc_class(e)), point, 0)
    # MSH-2 defects in parsed text
    texts = {
        'dup-msh2': 'MSH|^^\\&|A|B|||20200229||ADT^A01^ADT_A01|1|P|%s' % v,
        'short-msh2': 'MSH|^~\\|A|B|||20200229||ADT^A01^ADT_A01|1|P|%s' % v,
        'long-msh2': 'MSH|^~\\&#$|A|B|||20200229||ADT^A01^ADT_A01|1|P|%s' % v,
        'field-sep-in-msh2': 'MSH|^~|&|A|B|||20200229||ADT^A01^ADT_A01|1|P|%s' % v,
    }
    if v < '2.7':
        texts['five-chars-before-2.7'] = 'MSH|^~\\&#|A|B|||20200229||ADT^A01^ADT_A01|1|P|%s' % v
    for name, t in texts.items():
        res.evaluations += 1
        res.enumerated += 1
        res.states += 1
        res.transitions += 1
        point = {'kind': 'defect', 'v': v}
        try:
            m = parse_message(t)
            if name == 'field-sep-in-msh2':
                res.unspecified['field separator inside MSH-2 shortens it'] += 1
                continue
            res.violation('accepts-invalid|%s|parse_message|%s' % (name, fam(v)), 'v%s: %r parsed without InvalidEncodingChars' % (v, t), point, 0)
        except InvalidEncodingChars:
            res.classes['defect-rejected'] += 1
        except Exception as e:
            if name == 'field-sep-in-msh2':
                res.unspecified['field separator inside MSH-2 shortens it'] += 1
                continue
            res.violation('wrong-exception|%s|parse_message|%s' % (name, exc_class(e)), 'v%s: %r raises %s' % (v, t, exc_class(e)), point, 0)


def units(tier):
    pool = POOL6 if tier == 'quick' else POOL8
    us = []
    for v in VERSIONS:
        sets = list(itertools.permutations(pool, 5))
        if v >= '2.7':
            sets += list(itertools.permutations(pool, 6))
        if tier == 'quick' and v not in ('2.3', '2.5', '2.7', '2.8.2'):
            # the code has one branch on the version (>= 2.7): the other versions take every 6th assignment in quick
            sets = sets[::6]
        chunk = 120
        for i in range(0, len(sets), chunk):
            us.append(('sets', v, i, i + chunk, len(pool)))
        us.append(('defects', v))
        us.append(('defaults', v))
    return us


def run_unit(unit, tier):
    res = Result()
    if unit[0] == 'sets':
        _, v, lo, hi, npool = unit
        pool = POOL6 if npool == 6 else POOL8
        sets = list(itertools.permutations(pool, 5))
        if v >= '2.7':
            sets += list(itertools.permutations(pool, 6))
        if tier == 'quick' and v not in ('2.3', '2.5', '2.7', '2.8.2'):
            sets = sets[::6]
        for t in sets[lo:hi]:
            check_set(res, v, t)
            if len(t) == 6:
                # right after a set with a truncation character: a five-role set that uses that character as an ordinary
                # delimiter (what one message leaves behind must not reach the next one)
                check_set(res, v, (t[5],) + tuple(t[1:5]))
        res.dims['sets v%s' % v] += len(sets[lo:hi])
    elif unit[0] == 'defects':
        check_defects(res, unit[1])
    else:
        v = unit[1]
        from hl7apy.core import Message
        check_set(res, v, ('|', '^', '&', '~', '\\'))
        if v >= '2.7':
            check_set(res, v, ('|', '^', '&', '~', '\\', '#'))
        # sets that differ from the default one in exactly one role (a standard-looking MSH-2 with another MSH-1, ...)
        base = ['|', '^', '&', '~', '\\']
        for i, ch in enumerate(('!', '$', '*', '?', '@')):
            t = list(base)
            t[i] = ch
            check_set(res, v, tuple(t))
            if v >= '2.7':
                check_set(res, v, tuple(t) + ('#',))
                check_set(res, v, tuple(t) + ('%',))
        # every punctuation character in every role, the other roles keeping their default character
        import string
        for ch in string.punctuation:
            if ch in '.|^&~\\#%' or ch in FIXED_MSH7 or ch in ''.join(msh9(v).values()):
                continue        # characters of the recipe content (the structure id of MSH-9 holds an underscore from 2.4 on)
            for i in range(5):
                t = list(base)
                t[i] = ch
                check_set(res, v, tuple(t))
        # the dictionary read from one message belongs to that message: using another message afterwards must not change it
        a = Message('ADT_A01', version=v, encoding_chars=ec_of(('!', '$', '*', '?', '@')))
        held = a.encoding_chars
        before = dict(held)
        b = Message('ADT_A01', version=v)
        b.encoding_chars
        b.to_er7()
        res.evaluations += 1
        res.enumerated += 1
        res.states += 1
        res.transitions += 2
        if held != before:
            res.violation('readback-aliased|%s' % fam(v), 'v%s: the set read from one message %r became %r after another message was used'
                          % (v, before, held), {'kind': 'defaults', 'v': v}, 1)
        res.sample({'v': v, 'reference': expected(v, ec_of(('|', '^', '&', '~', '\\')))[0]}, cap=2)
    res.expected_size = res.enumerated
    return res


def run(tier, seed, extra):
    us = common.rotate(units(tier), seed)
    extra['bounds'] = {'pool': POOL6 if tier == 'quick' else POOL8,
                       'assignments': 'all injective 5-role (and 6-role from 2.7) assignments; in quick every 6th for versions other than 2.3/2.5/2.7/2.8.2'}
    return common.run_units(run_unit, us, tier)


def replay(point, res):
    if point['kind'] == 'set':
        check_set(res, point['v'], tuple(point['t']))
    elif point['kind'] == 'defaults':
        res.merge(run_unit(('defaults', point['v']), 'quick'))
    else:
        check_defects(res, point['v'])
