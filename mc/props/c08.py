"""C08 — group finding is sound, order-preserving and deterministic.

Engine E1.  Every concrete message structure of every version x instances generated from the
tables (required-only, all children, every repeatable group twice to depth 3, each optional child
alone); segment bodies are bare names.  Oracle: soundness against the reference tuples, flattening
equals the input, same encoding as find_groups=False, two parses agree; for instances of
structures in which every segment name occurs at one place: the tree is exactly the derivation
tree and validate() raises no message- or group-level error.
"""
from __future__ import annotations

from .. import common, tables, structures as st
from ..common import Result, VERSIONS, TOLERANT, exc_class, is_lib_exc

ID = 'C08'
ENGINE = 'E1 grid'
RULE = ('one case = (version, structure, instance); instances are distinct derivation trees of the structure; '
        'non-trivial = the instance contains at least one group')
ASSUMPTIONS = [
    'instances: required-only, all children once, repeatable groups twice (nested to depth 3), each optional child alone',
    'segment bodies are bare names, so field-level validation errors are not judged here (C04 does)',
    'structures with anomalous table rows (None references, ANYHL7SEGMENT, uninstantiable segments) are blocked and counted',
]


def group_names(ref, acc=None):
    acc = set() if acc is None else acc
    for c in st.children_of(ref):
        try:
            cname, cref, card, cls = c
        except Exception:
            continue
        if cls == 'GRP' and cref is not None:
            acc.add(cname)
            group_names(cref, acc)
    return acc


def group_level_errors(report, v, structure):
    """errors raised about the message or one of its groups, not about segment content"""
    owners = group_names(tables.msg_ref(v, structure)) | {structure}
    out = []
    for e in report.errors:
        t = str(e)
        for marker in ('Missing required child ', 'Child limit exceeded '):
            if t.startswith(marker):
                el = t[len(marker):].split('.')[0]
                if el in owners:
                    out.append(t)
        if t.startswith('Invalid children detected for <Message') or t.startswith('Invalid children detected for <Group'):
            out.append(t)
        if t.startswith('Unknown element') or t.startswith('Invalid element'):
            out.append(t)
    return out


def check_instance(res, v, name, label, tree):
    from hl7apy.parser import parse_message
    names = st.flatten(tree)
    if not names or names[0] != 'MSH':
        names = ['MSH'] + [n for n in names if n != 'MSH']
    text = '\r'.join([st.msh_line(v, name)] + names[1:])
    kind = label.split(':')[0]
    point = {'v': v, 'name': name, 'label': label}
    res.evaluations += 1
    res.enumerated += 1
    res.states += 1
    res.transitions += 3
    if any(n[0] == 'G' for n in tree):
        res.nontrivial += 1
    try:
        m = parse_message(text, validation_level=TOLERANT, find_groups=True)
        m2 = parse_message(text, validation_level=TOLERANT, find_groups=True)
        flat = parse_message(text, validation_level=TOLERANT, find_groups=False)
        got = st.parsed_shape(m)
    except Exception as e:
        res.violation('raises|%s|%s|%s|%s' % (v, name, kind, exc_class(e)), 'parse_message of %s instance of %s (v%s) raises %s: %s; segments %s'
                      % (label, name, v, exc_class(e), e, names), point, len(names))
        return
    res.validated += 1
    # determinism
    if st.parsed_shape(m2) != got:
        res.violation('nondeterministic|%s|%s|%s' % (v, name, kind), 'two parses of the same text give different trees', point, len(names))
    # order
    flatnames = [s.name for s in st.parsed_flat(m)]
    if flatnames != names:
        sym = 'drop' if len(flatnames) < len(names) else 'order'
        res.violation('%s|%s|%s|%s' % (sym, v, name, kind), '%s instance of %s (v%s): input segments %s, tree flattens to %s' % (label, name, v, names, flatnames),
                      point, len(names))
        return
    # agreement with find_groups=False
    if m.to_er7() != flat.to_er7():
        res.violation('encoding-differs|%s|%s|%s' % (v, name, kind), 'find_groups on/off encode differently: %r vs %r' % (m.to_er7(), flat.to_er7()), point, len(names))
    # soundness: every element is a declared child of its parent (reference tuples)
    bad = unsound(m, tables.msg_ref(v, name))
    if bad:
        res.violation('unsound|%s|%s|%s' % (v, name, kind), '%s instance of %s (v%s): %s' % (label, name, v, bad), point, len(names))
        return
    # exactness for unambiguous structures
    if st.unambiguous(v, name):
        want = st.shape(tree)
        if want and want[0] != ('S', 'MSH'):
            want = (('S', 'MSH'),) + tuple(n for n in want if n != ('S', 'MSH'))
        if got != want:
            res.violation('tree|%s|%s|%s' % (v, name, kind), '%s instance of %s (v%s): expected tree %s, got %s' % (label, name, v, brief(want), brief(got)),
                          point, len(names))
            res.classes['tree-differs'] += 1
            return
        try:
            rep = m.validate(return_errors=True)
            gl = group_level_errors(rep, v, name)
        except Exception as e:
            gl = ['validate raises %s' % exc_class(e)]
        if gl and kind in ('all', 'rep2'):
            res.violation('invalid|%s|%s|%s' % (v, name, kind), '%s instance of %s (v%s) draws group-level validation errors: %s' % (label, name, v, gl[:3]),
                          point, len(names))
        elif gl and any(not x.startswith('Missing required') for x in gl):
            res.violation('invalid|%s|%s|%s' % (v, name, kind), '%s instance of %s (v%s) draws group-level validation errors: %s' % (label, name, v, gl[:3]),
                          point, len(names))
        res.classes['exact-tree'] += 1
    else:
        res.classes['sound-ordered(ambiguous structure)'] += 1


def brief(shape):
    def f(n):
        return n[1] if n[0] == 'S' else '%s[%s]' % (n[1].split('_', 2)[-1], ' '.join(f(c) for c in n[2]))
    return ' '.join(f(n) for n in shape)


def unsound(parent, ref):
    decl = st.declared_children(ref)
    for c in parent.children:
        if c.name not in decl:
            return '%s is not a declared child of %s' % (c.name, parent.name)
        cls, cref, card = decl[c.name]
        if (cls == 'GRP') != (c.classname == 'Group'):
            return '%s attached as %s under %s' % (c.name, c.classname, parent.name)
        if cls == 'GRP':
            r = unsound(c, cref)
            if r:
                return r
    return None


def check_z_variants(res, v, name, tree):
    """one segment the structure does not list (ZZZ) after every position of the all-children instance: the group finder
    must still place every segment (the Z segment goes where the finder stands), keep the order, and encode as with
    group-finding off"""
    from hl7apy.parser import parse_message
    names = st.flatten(tree)
    if not names or names[0] != 'MSH':
        names = ['MSH'] + [n for n in names if n != 'MSH']
    for p in range(1, len(names) + 1):
        zn = names[:p] + ['ZZZ'] + names[p:]
        text = '\r'.join([st.msh_line(v, name)] + zn[1:])
        point = {'v': v, 'name': name, 'label': 'all', 'z_at': p}
        res.evaluations += 1
        res.enumerated += 1
        res.states += 1
        res.transitions += 2
        res.nontrivial += 1
        try:
            flat = parse_message(text, validation_level=TOLERANT, find_groups=False)
        except Exception:
            res.blocked['Z variant refused with group-finding off'] += 1
            continue
        try:
            m = parse_message(text, validation_level=TOLERANT, find_groups=True)
        except Exception as e:
            res.violation('z-raises|%s|%s|%s' % (v, name, exc_class(e)), 'all-children instance of %s (v%s) with ZZZ after segment %d (%s, next %s): group-finding on '
                          'raises %s: %s; group-finding off parses it' % (name, v, p, names[p - 1], names[p] if p < len(names) else '-', exc_class(e), str(e)[:160]), point, len(zn))
            continue
        res.validated += 1
        flatnames = [x.name for x in st.parsed_flat(m)]
        if flatnames != zn:
            res.violation('z-%s|%s|%s' % ('drop' if len(flatnames) < len(zn) else 'order', v, name), 'all-children instance of %s (v%s) with ZZZ after segment %d: '
                          'input %s, tree flattens to %s' % (name, v, p, zn, flatnames), point, len(zn))
        elif m.to_er7() != flat.to_er7():
            res.violation('z-encoding-differs|%s|%s' % (v, name), 'find_groups on/off encode differently with ZZZ after segment %d: %r vs %r'
                          % (p, m.to_er7(), flat.to_er7()), point, len(zn))
        res.dims['Z-segment variants'] += 1


def over_cardinality(parent, ref):
    """a child name that occurs more often under one parent than the structure allows"""
    decl = st.declared_children(ref)
    count = {}
    for c in parent.children:
        count[c.name] = count.get(c.name, 0) + 1
    for n, k in count.items():
        if n in decl:
            mx = decl[n][2][1]
            if mx not in (-1, None) and k > mx:
                return '%d x %s under one %s (at most %s)' % (k, n, parent.name, mx)
    for c in parent.children:
        if c.name in decl and decl[c.name][0] == 'GRP' and c.classname == 'Group':
            r = over_cardinality(c, decl[c.name][1])
            if r:
                return r
    return None


def recur_points(ref):
    """[(index in depth-first order, segment name)] of the non-repeatable segments that lie inside at least one group
    and have a repeatable group among their ancestors: when such a segment recurs, a new repetition of that group is due"""
    out = []
    order = []

    def walk(r, chain, leads):
        kids = st.children_of(r)
        for c in kids:
            cname, cref, card, cls = c
            if cls == 'GRP':
                sub = st.children_of(cref)
                first = sub[0] if sub else None
                walk(cref, chain + [card[1]], leads + ([first[0]] if first is not None and first[3] == 'SEG' else []))
            else:
                order.append(cname)
                if chain and card[1] == 1 and any(mx == -1 or (mx or 0) > 1 for mx in chain):
                    out.append((len(order) - 1, cname, [x for x in leads if x != cname]))
    walk(ref, [], [])
    return order, out


def check_recur_variants(res, v, name):
    """the all-children instance cut after a non-repeatable segment that sits in a chain of groups, followed by that
    segment once more: the finder has to climb to the nearest repeatable group and open a new repetition of it; no parent
    may end up with more children of a name than the structure allows"""
    from hl7apy.parser import parse_message
    ref = tables.msg_ref(v, name)
    order, pts = recur_points(ref)
    if not order or order[0] != 'MSH':
        return
    occ = st.structure_info(v, name)['occ']
    variants = []
    for p, seg, leads in pts:
        variants.append((p, seg, order[:p + 1] + [seg]))
        lean = ['MSH'] + [x for x in leads if x != 'MSH'] + [seg, seg]
        if lean != variants[-1][2]:
            variants.append((p, seg, lean))
    for p, seg, names in variants:
        if any(occ.get(n, 0) != 1 for n in set(names)):
            # the exactness clause of the statement speaks of instances whose segment names each occur at one place
            res.dims['recurring-segment variants skipped (a name of the instance occurs at several places)'] += 1
            continue
        text = '\r'.join([st.msh_line(v, name)] + names[1:])
        point = {'v': v, 'name': name, 'label': 'all', 'recur_at': p}
        res.evaluations += 1
        res.enumerated += 1
        res.states += 1
        res.transitions += 1
        res.nontrivial += 1
        try:
            m = parse_message(text, validation_level=TOLERANT, find_groups=True)
        except Exception as e:
            res.violation('recur-raises|%s|%s|%s' % (v, name, exc_class(e)), 'all-children instance of %s (v%s) cut after %s (segment %d) and %s once more: raises %s: %s'
                          % (name, v, seg, p, seg, exc_class(e), str(e)[:160]), point, len(names))
            continue
        res.validated += 1
        flatnames = [x.name for x in st.parsed_flat(m)]
        if flatnames != names:
            res.violation('recur-%s|%s|%s' % ('drop' if len(flatnames) < len(names) else 'order', v, name), '%s (v%s) with %s recurring after segment %d: input %s, '
                          'tree flattens to %s' % (name, v, seg, p, names, flatnames), point, len(names))
            continue
        bad = unsound(m, ref) or over_cardinality(m, ref)
        if bad:
            res.violation('recur-cardinality|%s|%s' % (v, name), '%s (v%s) with the non-repeatable %s recurring after segment %d: %s; tree %s'
                          % (name, v, seg, p, bad, brief(st.parsed_shape(m))), point, len(names))
        res.dims['recurring-segment variants'] += 1


def units(tier):
    us = []
    for v in VERSIONS:
        names = tables.concrete_message_names(v)
        for i in range(0, len(names), 6):
            us.append((v, tuple(names[i:i + 6])))
    # order dependence across versions: adjacent versions, both directions
    for a, b in zip(VERSIONS, VERSIONS[1:]):
        for va, vb in ((a, b), (b, a)):
            common_names = [n for n in tables.concrete_message_names(vb) if n in common.libs()[va].MESSAGES]
            if tier == 'quick':
                common_names = common_names[::2]
            for i in range(0, len(common_names), 12):
                us.append(('cross', va, vb, tuple(common_names[i:i + 12])))
    return us


def cross_unit(va, vb, names, res):
    """the structures of version vb parsed right after the same-named structures of version va in one process:
    nothing the group finder learnt from one version may reach another (group names recur across versions with
    different layouts)"""
    from hl7apy.parser import parse_message
    for name in names:
        if st.structure_info(vb, name)['anomalies']:
            continue
        if not st.structure_info(va, name)['anomalies']:
            for label, tree in st.instances(va, name, ('all', 'rep2')):
                nm = st.flatten(tree)
                nm = ['MSH'] + [n for n in nm if n != 'MSH']
                try:
                    parse_message('\r'.join([st.msh_line(va, name)] + nm[1:]), validation_level=TOLERANT, find_groups=True)
                except Exception:
                    pass
        for label, tree in st.instances(vb, name, ('all', 'rep2')):
            if tree:
                check_instance(res, vb, name, label, tree)
    res.dims['cross-version pairs'] += 1


def run_unit(unit, tier):
    if unit[0] == 'cross':
        res = Result()
        cross_unit(unit[1], unit[2], unit[3], res)
        res.expected_size = res.enumerated
        return res
    v, names = unit
    res = Result()
    kinds = ('required', 'all', 'rep2', 'opt')
    for name in names:
        info = st.structure_info(v, name)
        if info['anomalies']:
            res.blocked['structure with anomalous rows: %s' % sorted(set(a.split(':')[0] for a in info['anomalies']))] += 1
            res.dims['structures blocked'] += 1
            continue
        res.dims['structures'] += 1
        res.dims['unambiguous structures' if st.unambiguous(v, name) else 'ambiguous structures'] += 1
        n = 0
        for label, tree in st.instances(v, name, kinds):
            if not tree:
                continue
            if label.startswith('opt') and tier == 'quick' and n > 12:
                continue
            n += 1
            check_instance(res, v, name, label, tree)
            if label == 'all' and (tier != 'quick' or sum(map(ord, name)) % 3 == 0):
                check_z_variants(res, v, name, tree)
            if label == 'all':
                check_recur_variants(res, v, name)
        if n:
            res.sample({'v': v, 'structure': name, 'instances': n}, cap=3)
    res.expected_size = res.enumerated
    return res


def run(tier, seed, extra):
    us = common.rotate(units(tier), seed)
    extra['bounds'] = {'instance_kinds': ['required', 'all', 'rep2 (depth 3)', 'each optional child alone' + (' (first 12 per structure)' if tier == 'quick' else '')]}
    return common.run_units(run_unit, us, tier)


def replay(point, res):
    v, name = point['v'], point['name']
    for label, tree in st.instances(v, name):
        if label == point['label']:
            if 'recur_at' in point:
                check_recur_variants(res, v, name)
            elif 'z_at' in point:
                check_z_variants(res, v, name, tree)
            else:
                check_instance(res, v, name, label, tree)
