"""C09 — child mutations behave like edits of an ordered list.

Engine E2 (mc/hist.py): breadth-first search over histories of set / indexed set / add / delete /
remove / pop / copy operations on Segment, Field, Group and Message roots (empty and pre-parsed,
TOLERANT and STRICT), each transition compared with a plain reference model: an insertion-ordered
list of (child name, text) entries.
"""
from __future__ import annotations

from .. import common, hist, refmodel
from ..common import Result, STRICT, TOLERANT, exc_class

ID = 'C09'
ENGINE = 'E2 hist'
RULE = ('state = canonical object graph reached by a history of API calls; transition = one call of the alphabet on a '
        'rebuilt state; distinct states are counted after canonical hashing; non-trivial = every state other than the root')
ASSUMPTIONS = [
    'three child names per root (one max-1, one repeatable, one addressed by long name), two values per name',
    'histories up to the stated depth from each root; the alphabet is listed in the evidence',
    'encoding equality is required only while no non-repeatable ER7 position holds two children (a field cannot encode two '
    'CX_1 components; the per-name repetition lists are still compared)',
]

V = '2.5'


def seg_fields(text):
    """'PID|1||A~B' -> ordered entries [(name, text)]"""
    name, fields = refmodel.dec_segment(text, refmodel.DEFAULT_EC)
    out = []
    for i, f in enumerate(fields):
        if f == '':
            continue
        for r in f.split('~'):
            out.append(('%s_%d' % (name, i + 1), r))
    return out


class ListSpec(hist.Spec):
    """kind: 'segment' | 'message' | 'group' | 'field'"""

    def __init__(self, sid, kind, level, root_name, init, names, values, maxes, longnames=None, donor_init=None, pre=()):
        self.sid, self.kind, self.level, self.root_name, self.init = sid, kind, level, root_name, init
        self.pre = tuple(pre)           # operations applied to the initial objects (and to the model): a non-initial start
        self.names = names              # HL7 names of the three children
        self.values = values            # name -> [v1, v2]
        self.maxes = maxes              # name -> max cardinality (-1 unbounded)
        self.longnames = longnames or {}
        self.donor_init = donor_init

    # ---------------------------------------------------------------- construction
    def _make(self, init):
        from hl7apy.core import Segment, Field, Group, Message
        from hl7apy.parser import parse_segment, parse_message, parse_field
        if self.kind == 'segment':
            if init:
                return parse_segment(init, version=V, validation_level=self.level)
            return Segment(self.root_name, version=V, validation_level=self.level)
        if self.kind == 'field':
            if init:
                return parse_field(init, self.root_name, version=V, validation_level=self.level)
            return Field(self.root_name, version=V, validation_level=self.level)
        if self.kind == 'group':
            g = Group(self.root_name, version=V, validation_level=self.level)
            if init:
                g.value = init
            return g
        if init:
            return parse_message(init, validation_level=self.level, find_groups=False)
        return Message(self.root_name, version=V, validation_level=self.level)

    def build(self):
        pool = {'root': self._make(self.init), 'donor': self._make(self.donor_init)}
        for op in self.pre:
            self.apply(pool, op)
        return pool

    def child_el(self, name, text):
        from hl7apy.core import Field, Component, Segment, Group
        from hl7apy.parser import parse_segment
        if self.kind == 'segment':
            f = Field(name, version=V, validation_level=self.level)
            f.value = text
            return f
        if self.kind == 'field':
            c = Component(name, version=V, validation_level=self.level)
            c.value = text
            return c
        if text[:3] == name:
            return parse_segment(text, version=V, validation_level=self.level)
        g = Group(name, version=V, validation_level=self.level)
        g.value = text
        return g

    # ---------------------------------------------------------------- alphabet
    def alphabet(self, pool, hist_):
        ops = []
        for n in self.names:
            v1, v2 = self.values[n]
            ops.append(('set', n, v1))
            ops.append(('set', n, v2))
            ops.append(('set_lower', n, v2))
            if n in self.longnames:
                ops.append(('set_long', n, v1))
            ops.append(('set_el', n, v1))
            for i in (0, 1, 2):
                ops.append(('setidx', n, i, v2 if i != 1 else v1))
            ops.append(('add_el', n, v1))
            ops.append(('add_helper', n, v2))
            ops.append(('del', n))
            ops.append(('delidx', n, 0))
            ops.append(('delidx', n, 1))
            ops.append(('copy', n))
            ops.append(('copy_el', n))
        for i in ((1, 2, 3) if self.kind == 'message' else (0, 1, 2)):     # a message keeps its MSH
            ops.append(('setchild', i, 'same'))
            ops.append(('remove', i))
            ops.append(('pop', i))
        ops.append(('donor_mut', self.names[1]))
        for n in self.names:
            ops.append(('donor_inplace', n))
        # reads (and one refused write) through the proxy of a child: when the child is absent they leave a temporary
        # traversal child behind, which later edits by name must not mistake for an actual one
        for n in self.names:
            ops.append(('touch', n))
        ops.append(('touch_bad', self.names[1]))
        # writes through the proxy of the child (first repetition, created when absent) and a copy addressed by long name
        # a repetition replaced by another repetition of the same parent (the element moves)
        for i, j in ((1, 0), (0, 1), (2, 0), (0, 2)):
            ops.append(('setidx_own', self.names[1], i, j))
        # the proxy of a child of the same parent as the value: it stands for the text of the first repetition
        for i in (0, 1, 2):
            ops.append(('setidx_ownproxy', self.names[1], i))
        if self.kind == 'segment' and self.level != STRICT and len(self.names) > 1:
            ops.append(('set_otherproxy', self.names[0], self.names[1]))
            ops.append(('set_otherproxy', self.names[1], self.names[0]))
        for n in self.names:
            ops.append(('set_via_proxy', n, self.values[n][0]))
            if n in self.longnames:
                ops.append(('copy_el_long', n))
        return ops

    def spelling(self, n, how):
        return {'set': n, 'set_lower': n.lower(), 'set_long': self.longnames.get(n, n).lower()}[how]

    def apply(self, pool, op):
        r, d = pool['root'], pool['donor']
        k = op[0]
        if k in ('set', 'set_lower', 'set_long'):
            setattr(r, self.spelling(op[1], k), op[2])
        elif k == 'set_el':
            setattr(r, op[1], self.child_el(op[1], op[2]))
        elif k == 'setidx':
            getattr(r, op[1])[op[2]] = op[3]
        elif k == 'setchild':
            i = op[1]
            cur = r.children[i]            # IndexError when absent
            r.children[i] = self.values[self._norm(cur.name)][1] if self._norm(cur.name) in self.values else cur.to_er7()
        elif k == 'add_el':
            r.add(self.child_el(op[1], op[2]))
        elif k == 'add_helper':
            helper = {'segment': 'add_field', 'field': 'add_component'}.get(self.kind)
            if helper is None:
                helper = 'add_segment' if op[2][:3] == op[1] else 'add_group'
            c = getattr(r, helper)(op[1])
            c.value = op[2]
        elif k == 'del':
            delattr(r, op[1])
        elif k == 'delidx':
            del getattr(r, op[1])[op[2]]
        elif k == 'remove':
            r.children.remove(r.children[op[1]])
        elif k == 'pop':
            r.children.pop(op[1])
        elif k == 'copy':
            setattr(r, op[1], getattr(d, op[1]))
        elif k == 'copy_el':
            setattr(r, op[1], getattr(d, op[1])[0])
        elif k == 'setidx_own':
            reps = getattr(r, op[1])
            reps[op[2]] = reps[op[3]]           # IndexError when either repetition is absent
        elif k == 'setidx_ownproxy':
            getattr(r, op[1])[op[2]] = getattr(r, op[1])
        elif k == 'set_otherproxy':
            setattr(r, op[1], getattr(r, op[2]))
        elif k == 'set_via_proxy':
            getattr(r, op[1].lower()).value = op[2]
        elif k == 'copy_el_long':
            setattr(r, self.longnames[op[1]].lower(), getattr(d, op[1])[0])
        elif k == 'touch':
            getattr(r, op[1].lower()).value
        elif k == 'touch_bad':
            setattr(getattr(r, op[1].lower()), 'no_such_child_9', 'x')
        elif k == 'donor_mut':
            setattr(d, op[1], self.values[op[1]][1] if self.kind != 'field' else 'DM')
        elif k == 'donor_inplace':
            getattr(d, op[1])[0].value = self.inplace_value(op[1])      # IndexError when the donor has no such child
        else:
            raise common.HarnessError('unknown op %r' % (op,))

    def inplace_value(self, n):
        special = {'PID_1': '3', 'EVN': 'EVN||2023', 'PV1': 'PV1|7|I', 'QPD_1': 'Q3', 'CX_5': 'AN'}
        if n in special:
            return special[n]
        if self.kind in ('message', 'group'):
            return n + '|77|IP'
        return 'IP'

    def _norm(self, name):
        return name

    # ---------------------------------------------------------------- reference model
    def entries_of(self, text):
        if not text:
            return []
        if self.kind == 'segment':
            return seg_fields(text)
        if self.kind == 'field':
            dt = self.names[0].split('_')[0]
            return [('%s_%d' % (dt, j + 1), c) for j, c in enumerate(text.split('^')) if c != '']
        return [(l[:3], l) for l in refmodel.seg_lines(text)]

    def model_init(self):
        m = {'root': self.entries_of(self.init), 'donor': self.entries_of(self.donor_init), 'shared': False}
        for op in self.pre:
            m, _ = self.model_apply(m, op, None)
        return m

    def _nth(self, entries, name, i):
        idx = [p for p, (n, t) in enumerate(entries) if n == name]
        return idx[i] if 0 <= i < len(idx) else None

    def _count(self, entries, name):
        return sum(1 for n, t in entries if n == name)

    def model_apply(self, model, op, pool):
        m = {'root': list(model['root']), 'donor': list(model['donor']), 'shared': model['shared']}
        e = m['root']
        k = op[0]
        strict = self.level == STRICT

        def overflow(name, replacing):
            mx = self.maxes.get(name, -1)
            return strict and mx != -1 and self._count(e, name) + (0 if replacing else 1) > mx

        def put(name, i, text):
            p = self._nth(e, name, i)
            if p is None:
                if overflow(name, False):
                    return 'raise'
                e.append((name, text))
            else:
                e[p] = (name, text)
            return 'ok'
        if k in ('set', 'set_lower', 'set_long', 'set_el', 'set_via_proxy'):
            return self._ret(m, model, put(op[1], 0, op[2]))
        if k == 'setidx':
            return self._ret(m, model, put(op[1], op[2], op[3]))
        if k == 'setchild':
            i = op[1]
            if i >= len(e):
                return model, 'raise'
            n = e[i][0]
            e[i] = (n, self.values[n][1] if n in self.values else e[i][1])
            return m, 'ok'
        if k in ('add_el', 'add_helper'):
            if overflow(op[1], False):
                return model, ('raise' if k == 'add_el' else None)
            e.append((op[1], op[2]))
            return m, 'ok'
        if k == 'del' or k == 'delidx':
            p = self._nth(e, op[1], 0 if k == 'del' else op[2])
            if p is None:
                return model, 'raise'
            del e[p]
            return m, 'ok'
        if k in ('remove', 'pop'):
            if op[1] >= len(e):
                return model, 'raise'
            del e[op[1]]
            return m, 'ok'
        if k == 'setidx_own':
            pi, pj = self._nth(e, op[1], op[2]), self._nth(e, op[1], op[3])
            if pi is None or pj is None:
                return model, 'raise'
            if pi != pj:
                e[pi] = e[pj]
                del e[pj]
            return m, 'ok'
        if k in ('setidx_ownproxy', 'set_otherproxy'):
            src = op[1] if k == 'setidx_ownproxy' else op[2]
            p = self._nth(e, src, 0)
            if p is None:
                return model, None          # the proxy of an absent child: outcome unspecified, the list is unchanged
            return self._ret(m, model, put(op[1], op[2] if k == 'setidx_ownproxy' else 0, e[p][1]))
        if k in ('copy', 'copy_el', 'copy_el_long'):
            p = self._nth(m['donor'], op[1], 0)
            if p is None:
                return model, None          # nothing to copy: outcome unspecified (raises or no-op)
            return self._ret(m, model, put(op[1], 0, m['donor'][p][1]))
        if k in ('touch', 'touch_bad'):
            return model, None              # whether it raises is not the list model's business; the list is unchanged
        if k == 'donor_inplace':
            p = self._nth(m['donor'], op[1], 0)
            if p is None:
                return model, 'raise'
            m['donor'][p] = (op[1], self.inplace_value(op[1]))
            return m, 'ok'
        if k == 'donor_mut':
            p = self._nth(m['donor'], op[1], 0)
            val = self.values[op[1]][1] if self.kind != 'field' else 'DM'
            if p is None:
                m['donor'].append((op[1], val))
            else:
                m['donor'][p] = (op[1], val)
            return m, 'ok'
        raise common.HarnessError('model: unknown op %r' % (op,))

    def _ret(self, m, model, verdict):
        return (m, 'ok') if verdict == 'ok' else (model, 'raise')

    # ---------------------------------------------------------------- encodings of the model
    def model_reps(self, entries):
        reps = {}
        for n, t in entries:
            reps.setdefault(n, []).append(t)
        return reps

    def model_er7(self, entries):
        """-> text or None when the ER7 form is not defined by the model (two children at one non-repeatable position)"""
        reps = self.model_reps(entries)
        if self.kind == 'segment':
            fields = {int(n.rsplit('_', 1)[1]): r for n, r in reps.items()}
            return refmodel.enc_segment(self.root_name, fields, refmodel.DEFAULT_EC)
        if self.kind == 'field':
            if any(len(r) > 1 for r in reps.values()):
                return None
            return refmodel.enc_rep({int(n.rsplit('_', 1)[1]): r[0] for n, r in reps.items()}, refmodel.DEFAULT_EC)
        if self.level == STRICT:
            return None     # STRICT groups encode in structure order (C05's subject); per-name lists are compared
        return '\r'.join(t for n, t in entries)

    # ---------------------------------------------------------------- observation and oracle
    def observe(self, pool):
        o = {}
        for who in ('root', 'donor'):
            e = pool[who]
            o[who] = (hist.er7(e), self.reps(e))
        return o

    def reps(self, e):
        out = {}
        for n in self.names:
            try:
                out[n] = tuple(c.to_er7() for c in getattr(e, n))
            except Exception as x:
                out[n] = ('!' + type(x).__name__,)
        try:
            out['#order'] = tuple((c.name, c.to_er7()) for c in e.children)
        except Exception as x:
            out['#order'] = ('!' + type(x).__name__,)
        return out

    def agrees(self, obs, model):
        for who in ('root', 'donor'):
            want = self.model_reps(model[who])
            got_er7, got = obs[who]
            for n in self.names:
                if got[n] != tuple(want.get(n, ())):
                    return False
            wt = self.model_er7(model[who])
            if wt is not None and got_er7 != ('ok', wt):
                return False
            if self.kind in ('message', 'group') and self.level == TOLERANT and tuple(model[who]) != got['#order']:
                return False
        return True

    def check(self, res, ctx):
        op = ctx.op
        if not self.agrees(ctx.before, ctx.model_before):
            # the implementation already left the model on an earlier step of this history (reported there)
            res.dims['transitions from already divergent states (not judged)'] += 1
            return
        base = '%s|%s|%s' % (op[0], self.kind, 'STRICT' if self.level == STRICT else 'TOLERANT')
        point = {'sid': self.sid, 'hist': [list(o) for o in ctx.hist + (op,)]}
        rank = ctx.depth
        if ctx.expect == 'ok' and ctx.outcome == 'raise':
            res.violation(base + '|unexpected-raise|' + exc_class(ctx.exc),
                          '%s: %r after %r raises %s: %s; the list model accepts it' % (self.sid, op, list(ctx.hist), exc_class(ctx.exc), ctx.exc),
                          point, rank)
            return
        if ctx.expect == 'raise' and ctx.outcome == 'ok' and self.agrees(ctx.after, ctx.model_before):
            # accepted where the list model has nothing to edit, and nothing changed: the encodings still agree, which is
            # all the statement asks (seen when a read left a temporary traversal child behind: del then finds that one)
            res.classes['accepted-without-effect:%s' % op[0]] += 1
            return
        if ctx.expect == 'raise' and ctx.outcome == 'ok':
            res.violation(base + '|unexpected-accept', '%s: %r after %r is accepted; the list model rejects it (absent child / index)'
                          % (self.sid, op, list(ctx.hist)), point, rank)
            return
        if ctx.expect is None and ctx.outcome == 'raise':
            return          # unspecified and rejected: C12 checks that nothing changed
        model = ctx.model_after if ctx.outcome == 'ok' else ctx.model_before
        if ctx.outcome == 'raise':
            return          # rejections are C12's subject
        for who in ('root', 'donor'):
            want = self.model_reps(model[who])
            got_er7, got = ctx.after[who]
            for n in self.names:
                w = tuple(want.get(n, ()))
                if got[n] != w:
                    sym = self.symptom(ctx, who, n, w, got[n], model[who])
                    res.violation(base + '|' + sym, '%s: after %r + %r the %s lists %s = %r, the list model has %r'
                                  % (self.sid, list(ctx.hist), op, who, n, got[n], w), point, rank)
                    return
            wt = self.model_er7(model[who])
            if wt is not None and got_er7 != ('ok', wt):
                order = tuple(model[who])
                sym = 'reordered' if sorted(order) == sorted(got['#order']) and got['#order'] != order else 'encoding-differs'
                res.violation(base + '|' + sym + ('|donor' if who == 'donor' else ''),
                              '%s: after %r + %r the %s encodes %r, the list model %r' % (self.sid, list(ctx.hist), op, who, got_er7, wt),
                              point, rank)
                return
            if self.kind in ('message', 'group') and self.level == TOLERANT and tuple(model[who]) != got['#order']:
                res.violation(base + '|order-differs', '%s: after %r + %r children order %r, model %r'
                              % (self.sid, list(ctx.hist), op, got['#order'], tuple(model[who])), point, rank)
                return

    def symptom(self, ctx, who, n, want, got, entries):
        if who == 'donor':
            return 'donor-changed'
        if ctx.op[0] in ('donor_mut', 'donor_inplace'):
            return 'copy-aliased'
        if sorted(want) == sorted(got):
            return 'repetitions-reordered'
        if len(got) < len(want):
            return 'repetition-lost'
        if len(got) > len(want):
            return 'repetition-duplicated'
        return 'repetition-text'


PID_NAMES = ['PID_1', 'PID_3', 'PID_5']
PID_VALUES = {'PID_1': ['1', '2'], 'PID_3': ['V1', 'V2'], 'PID_5': ['N1^G', 'N2']}
PID_MAX = {'PID_1': 1, 'PID_3': -1, 'PID_5': -1}
PID_LONG = {'PID_1': 'SET_ID_PID', 'PID_3': 'PATIENT_IDENTIFIER_LIST', 'PID_5': 'PATIENT_NAME'}
MSG = 'MSH|^~\\&|A|B|||20200229||ADT^A01^ADT_A01|1|P|2.5\rEVN||2020\rPID|1||I\rNK1|1|A\rNK1|2|B\rPV1|1|I'
MSG_NAMES = ['EVN', 'NK1', 'PV1']
MSG_VALUES = {'EVN': ['EVN||2021', 'EVN||2022'], 'NK1': ['NK1|7|X', 'NK1|8|Y'], 'PV1': ['PV1|1|O', 'PV1|2|E']}
MSG_MAX = {'EVN': 1, 'NK1': -1, 'PV1': 1}
GRP_NAMES = ['IN1', 'IN3', 'ROL']
GRP_VALUES = {'IN1': ['IN1|1|P', 'IN1|2|Q'], 'IN3': ['IN3|1', 'IN3|2'], 'ROL': ['ROL|1|AD', 'ROL|2|UP']}
GRP_MAX = {'IN1': 1, 'IN3': -1, 'ROL': -1}
FLD_NAMES = ['CX_1', 'CX_4', 'CX_5']
FLD_VALUES = {'CX_1': ['A', 'B'], 'CX_4': ['N&U', 'M'], 'CX_5': ['MR', 'PI']}
FLD_MAX = {'CX_1': 1, 'CX_4': 1, 'CX_5': 1}
FLD_LONG = {'CX_1': 'ID_NUMBER', 'CX_4': 'ASSIGNING_AUTHORITY', 'CX_5': 'IDENTIFIER_TYPE_CODE'}
QPD_NAMES = ['QPD_1', 'QPD_2', 'QPD_3']
QPD_VALUES = {'QPD_1': ['Q1', 'Q2'], 'QPD_2': ['t1', 't2'], 'QPD_3': ['a', 'b']}
ZZZ_NAMES = ['ZZZ_1', 'ZZZ_2', 'ZZZ_4']
ZZZ_VALUES = {'ZZZ_1': ['a', 'b'], 'ZZZ_2': ['c', 'd'], 'ZZZ_4': ['e', 'f']}

SPECS = {}


def _add(s):
    SPECS[s.sid] = s


_add(ListSpec('seg-empty-T', 'segment', TOLERANT, 'PID', None, PID_NAMES, PID_VALUES, PID_MAX, PID_LONG, 'PID|9||D1~D2||DN'))
_add(ListSpec('seg-parsed-T', 'segment', TOLERANT, 'PID', 'PID|1||A~B~C||X^Y', PID_NAMES, PID_VALUES, PID_MAX, PID_LONG, 'PID|9||D1~D2||DN'))
# the same after one child name has been emptied again (its by-name entry exists and is empty)
_add(ListSpec('seg-parsed-T-emptied', 'segment', TOLERANT, 'PID', 'PID|1||A~B~C||X^Y', PID_NAMES, PID_VALUES, PID_MAX, PID_LONG, 'PID|9||D1~D2||DN',
              pre=(('del', 'PID_5'),)))
_add(ListSpec('seg-parsed-S', 'segment', STRICT, 'PID', 'PID|1||A~B~C||X^Y', PID_NAMES, PID_VALUES, PID_MAX, PID_LONG, 'PID|9||D1~D2||DN'))
_add(ListSpec('seg-z-T', 'segment', TOLERANT, 'ZZZ', 'ZZZ|p|q', ZZZ_NAMES, ZZZ_VALUES, {}, None, 'ZZZ|d1|d2'))
_add(ListSpec('seg-qpd-T', 'segment', TOLERANT, 'QPD', 'QPD|Q||k', QPD_NAMES, QPD_VALUES, {'QPD_1': 1}, None, 'QPD|D||d3'))
_add(ListSpec('fld-T', 'field', TOLERANT, 'PID_3', 'I^^^AA', FLD_NAMES, FLD_VALUES, FLD_MAX, FLD_LONG, 'DI^^^DA^DT'))
_add(ListSpec('msg-flat-T', 'message', TOLERANT, 'ADT_A01', MSG, MSG_NAMES, MSG_VALUES, MSG_MAX, None, MSG.replace('NK1|1|A', 'NK1|5|DA')))
_add(ListSpec('msg-flat-S', 'message', STRICT, 'ADT_A01', MSG, MSG_NAMES, MSG_VALUES, MSG_MAX, None, MSG.replace('NK1|1|A', 'NK1|5|DA')))
_add(ListSpec('grp-T', 'group', TOLERANT, 'ADT_A01_INSURANCE', 'IN1|1|A\rIN3|1\rIN3|2', GRP_NAMES, GRP_VALUES, GRP_MAX, None, 'IN1|9|D\rIN3|9'))


def depth_for(tier):
    return 3 if tier == 'quick' else 4


def run(tier, seed, extra):
    total = Result()
    depth = depth_for(tier)
    sids = sorted(SPECS)
    sids = common.rotate(sids, seed)
    per = {}
    out = hist.bfs_many(__name__, sids, depth, tier, total)
    for sid in sids:
        n, sizes = out[sid]
        per[sid] = sizes
        total.sample({'root': sid, 'states_per_depth': sizes, 'alphabet': len(SPECS[sid].alphabet(None, ()))}, cap=12)
    total.nontrivial = max(0, total.states - len(sids))
    extra['bounds'] = {'depth': depth, 'roots': sids, 'states_per_depth': per,
                       'alphabet_size': {sid: len(SPECS[sid].alphabet(None, ())) for sid in sids}}
    return total


def replay(point, res):
    hist.replay_history(__name__, point['sid'], point['hist'], res)
