"""C10 — the element tree stays internally consistent through any API history.

Engine E2.  An object pool (message, group, segments, fields, components, subcomponents; one of
each with the other validation level / version) and an alphabet of attach / re-attach / assign /
index-assign / helper / traversal-read / value-write / delete calls over ordered pairs (x, y) of
pool objects — most of them rejected, which is the point.  After every transition, accepted or
rejected, the invariants are evaluated through public observers only.
"""
from __future__ import annotations

from .. import common, hist
from ..common import Result, STRICT, TOLERANT, exc_class

ID = 'C10'
ENGINE = 'E2 hist'
RULE = ('state = canonical object graph of the whole pool after a history; every reached state is checked against the '
        'invariants; distinct states after canonical hashing; non-trivial = any state other than the initial pool')
ASSUMPTIONS = [
    'pool of 12 objects, histories up to the stated depth; alphabet listed in the evidence',
    'invariants use public observers only (children iteration/len/in/[], named proxies, parent, version, validation_level)',
]

V = '2.5'


def make_pool(level):
    from hl7apy.core import Message, Group, Segment, Field, Component, SubComponent
    other = STRICT if level == TOLERANT else TOLERANT
    p = {}
    p['M'] = Message('ADT_A01', version=V, validation_level=level)
    p['G'] = Group('ADT_A01_INSURANCE', version=V, validation_level=level)
    p['S1'] = Segment('PID', version=V, validation_level=level)
    p['S2'] = Segment('PID', version=V, validation_level=level)
    p['S2'].pid_3 = 'I2'
    p['SI'] = Segment('IN1', version=V, validation_level=level)
    p['F1'] = Field('PID_3', version=V, validation_level=level)
    p['F1'].value = 'I1^^^A1'
    p['F2'] = Field('PID_5', version=V, validation_level=level)
    p['C1'] = Component('CX_1', version=V, validation_level=level)
    p['C1'].value = 'cx'
    p['C2'] = Component('CX_4', version=V, validation_level=level)
    p['SC'] = SubComponent('HD_1', version=V, validation_level=level, value='hd')
    p['XL'] = Field('PID_3', version=V, validation_level=other)       # other validation level
    p['XV'] = Field('PID_3', version='2.4', validation_level=level)    # other version
    p['XE'] = Field('PID_3', version='2.5.1', validation_level=level)  # the errata release of the same version
    p['XE'].value = 'E1'
    p['SE'] = Segment('PID', version='2.5.1', validation_level=level)
    # a field that belongs to a Z segment: offered to PID it is refused because PID has no child of that name
    p['SZ'] = Segment('ZIN', version=V, validation_level=level)
    p['ZF'] = p['SZ'].add_field('ZIN_1')
    p['ZF'].value = 'z'
    return p


PAIRS = [('S1', 'M'), ('S2', 'M'), ('SI', 'G'), ('G', 'M'), ('F1', 'S1'), ('F1', 'S2'), ('F2', 'S1'), ('C1', 'F1'), ('C2', 'F1'),
         ('C1', 'F2'), ('SC', 'C2'), ('SC', 'C1'), ('XL', 'S1'), ('XV', 'S1'), ('S1', 'G'), ('F1', 'M'), ('C1', 'S1'), ('M', 'S1'),
         ('S1', 'S2'), ('F1', 'F2'), ('XE', 'S1'), ('SE', 'M'), ('F1', 'SE'), ('ZF', 'S1')]


class PoolSpec(hist.Spec):
    def __init__(self, sid, level, pre=()):
        self.sid, self.level, self.pre = sid, level, tuple(pre)

    def build(self):
        pool = make_pool(self.level)
        for op in self.pre:        # a non-initial start: a small tree already assembled and looked up by name
            try:
                self.apply(pool, op)
            except Exception:
                pass                # refused under this level (e.g. a second CX_1 under STRICT): the start is what results
        return pool

    def alphabet(self, pool, hist_):
        ops = []
        for x, y in PAIRS:
            ops.append(('add', x, y))
            ops.append(('parent', x, y))
            ops.append(('append', x, y))
            ops.append(('assign', x, y))
        for x, y in (('F1', 'S1'), ('S1', 'M'), ('C1', 'F1'), ('F1', 'S2')):
            ops.append(('setitem0', x, y))
        for x in ('S1', 'F1', 'C1', 'SC', 'G'):
            ops.append(('parent_none', x))
        for y, name in (('S1', 'pid_3'), ('S1', 'pid_5'), ('M', 'pid'), ('F1', 'cx_1'), ('F2', 'xpn_1'), ('M', 'adt_a01_insurance')):
            ops.append(('read', y, name))
            ops.append(('write', y, name))
        for y, name in (('S1', 'pid_3'), ('M', 'pid'), ('F1', 'cx_1'), ('S2', 'pid_3')):
            ops.append(('del', y, name))
        for y in ('S1', 'M', 'F1'):
            ops.append(('pop0', y))
            ops.append(('remove_last', y))
        ops.append(('helper', 'M', 'add_segment', 'PID'))
        ops.append(('helper', 'S1', 'add_field', 'PID_3'))
        ops.append(('helper', 'F1', 'add_component', 'CX_1'))
        ops.append(('helper', 'M', 'add_group', 'ADT_A01_INSURANCE'))
        ops.append(('deepwrite', 'M'))
        ops.append(('deepwrite', 'S1'))
        ops.append(('value', 'S1', 'PID|1||Z1~Z2'))
        ops.append(('value', 'F1', 'W^^^X'))
        ops.append(('value', 'S1', 'NK1|1'))
        return ops

    def apply(self, pool, op):
        k = op[0]
        if k == 'add':
            pool[op[2]].add(pool[op[1]])
        elif k == 'parent':
            pool[op[1]].parent = pool[op[2]]
        elif k == 'parent_none':
            pool[op[1]].parent = None
        elif k == 'append':
            pool[op[2]].children.append(pool[op[1]])
        elif k == 'assign':
            x, y = pool[op[1]], pool[op[2]]
            setattr(y, (x.name or 'x').lower(), x)
        elif k == 'setitem0':
            pool[op[2]].children[0] = pool[op[1]]
        elif k == 'read':
            e = getattr(pool[op[1]], op[2])
            len(e), list(e), repr(e)
        elif k == 'write':
            val = {'pid_3': 'W1', 'pid_5': 'N^G', 'pid': 'PID|1||WP', 'cx_1': 'wc', 'xpn_1': 'wx',
                   'adt_a01_insurance': 'IN1|1|P'}[op[2]]
            setattr(pool[op[1]], op[2], val)
        elif k == 'del':
            delattr(pool[op[1]], op[2])
        elif k == 'pop0':
            pool[op[1]].children.pop(0)
        elif k == 'remove_last':
            c = pool[op[1]].children
            c.remove(c[len(c) - 1])
        elif k == 'helper':
            getattr(pool[op[1]], op[2])(op[3])
        elif k == 'deepwrite':
            if op[1] == 'M':
                pool['M'].pid.pid_3.cx_4.hd_1 = 'deep'
            else:
                pool['S1'].pid_5.xpn_1.fn_1 = 'deep'
        elif k == 'value':
            pool[op[1]].value = op[2]
        else:
            raise common.HarnessError('unknown op %r' % (op,))

    def observe(self, pool):
        return None

    # -------------------------------------------------------------------------- invariants
    def invariants(self, pool):
        """-> list of (invariant name, text)"""
        bad = []
        listers = {}
        seen = set()
        stack = list(pool.items())
        universe = []
        while stack:
            label, e = stack.pop()
            if id(e) in seen:
                continue
            seen.add(id(e))
            universe.append((label, e))
            try:
                kids = list(e.children)
            except Exception as x:
                bad.append(('iteration-raises', '%s: iterating children raises %s' % (label, exc_class(x))))
                continue
            for i, c in enumerate(kids):
                listers.setdefault(id(c), []).append((label, e))
                stack.append(('%s/%s[%d]' % (label, c.name, i), c))
                if c.parent is not e:
                    bad.append(('parent-pointer', '%s lists %r whose parent is %r' % (label, c, c.parent)))
                if c.version != e.version:
                    bad.append(('mixed-version', '%s (v%s) lists %r of v%s' % (label, e.version, c, c.version)))
                if c.validation_level != e.validation_level:
                    bad.append(('mixed-level', '%s (level %s) lists %r of level %s' % (label, e.validation_level, c, c.validation_level)))
            # len / in / [] / iteration agree
            try:
                ch = e.children
                if len(ch) != len(kids):
                    bad.append(('len-vs-iteration', '%s: len(children)=%d, iteration yields %d' % (label, len(ch), len(kids))))
                for i, c in enumerate(kids):
                    if ch[i] is not c:
                        bad.append(('index-vs-iteration', '%s: children[%d] is not the %d-th iterated child' % (label, i, i)))
                    if c not in ch:
                        bad.append(('in-vs-iteration', '%s: iterated child %r not "in" children' % (label, c)))
            except Exception as x:
                bad.append(('observer-raises', '%s: len/in/[] raises %s' % (label, exc_class(x))))
            # lookup by name agrees with iteration restricted to that name
            names = []
            for c in kids:
                if c.name is not None and c.name not in names:
                    names.append(c.name)
            for n in names:
                want = [c for c in kids if c.name == n]
                try:
                    got = list(getattr(e, n)) if type(e).__name__ != 'SubComponent' else want
                    got2 = list(e.children.get(n))
                except Exception as x:
                    bad.append(('lookup-raises', '%s: lookup of listed child name %s raises %s' % (label, n, exc_class(x))))
                    continue
                if len(got) != len(want) or any(a is not b for a, b in zip(got, want)):
                    bad.append(('name-lookup-vs-iteration', '%s: getattr(%s) yields %r, iteration restricted to that name %r' % (label, n, got, want)))
                if len(got2) != len(want) or any(a is not b for a, b in zip(got2, want)):
                    bad.append(('children.get-vs-iteration', '%s: children.get(%s) yields %r, iteration %r' % (label, n, got2, want)))
        for cid, ls in listers.items():
            owners = []
            for lab, e in ls:
                if not any(e is o for _, o in owners):
                    owners.append((lab, e))
            if len(owners) > 1:
                bad.append(('listed-by-two-parents', 'one element is listed by %s' % ' and '.join(l for l, _ in owners)))
            if len(ls) > len(owners):
                bad.append(('listed-twice', 'one element is listed twice by %s' % ls[0][0]))
        return bad

    def initial_check(self, res, pool, model):
        for name, text in self.invariants(pool):
            res.violation('%s|initial' % name, 'initial pool: ' + text, {'sid': self.sid, 'hist': []}, 0)

    def check(self, res, ctx):
        bad = self.invariants(ctx.pool)
        if not bad:
            return
        # only the first transition that breaks an invariant is reported: was the state before already broken?
        pre, _, _ = hist.run_history(self, ctx.hist)
        if self.invariants(pre):
            res.dims['transitions from already inconsistent states (not judged)'] += 1
            return
        op = ctx.op
        x = ctx.pool.get(op[1]) if len(op) > 1 and isinstance(op[1], str) else None
        y = ctx.pool.get(op[2]) if len(op) > 2 and isinstance(op[2], str) and op[2] in ctx.pool else None
        classes = '%s>%s' % (type(x).__name__ if x is not None else '-', type(y).__name__ if y is not None else '-')
        point = {'sid': self.sid, 'hist': [list(o) for o in ctx.hist + (op,)]}
        for name in sorted({b[0] for b in bad}):
            text = [b[1] for b in bad if b[0] == name][0]
            res.violation('%s|%s|%s|%s|%s' % (name, op[0], classes, 'accepted' if ctx.outcome == 'ok' else 'rejected',
                                               'STRICT' if self.level == STRICT else 'TOLERANT'),
                          '%s: after %r + %r (%s%s): %s' % (self.sid, list(ctx.hist), op, ctx.outcome,
                                                            ':' + exc_class(ctx.exc) if ctx.exc else '', text), point, ctx.depth)


PRE = (('add', 'S1', 'M'), ('add', 'F1', 'S1'), ('add', 'C1', 'F1'), ('read', 'S1', 'pid_3'), ('read', 'M', 'pid'), ('read', 'F1', 'cx_1'))
SPECS = {'pool-T': PoolSpec('pool-T', TOLERANT), 'pool-S': PoolSpec('pool-S', STRICT),
         'pool-T-assembled': PoolSpec('pool-T-assembled', TOLERANT, PRE), 'pool-S-assembled': PoolSpec('pool-S-assembled', STRICT, PRE)}


def run(tier, seed, extra):
    total = Result()
    depth = 3 if tier == 'quick' else 4
    sids = common.rotate(sorted(SPECS), seed)
    out = hist.bfs_many(__name__, sids, depth, tier, total, depth_of={sid: depth - 1 for sid in sids if SPECS[sid].pre})
    per = {}
    for sid in sids:
        n, sizes = out[sid]
        per[sid] = sizes
        total.sample({'pool': sid, 'states_per_depth': sizes, 'alphabet': len(SPECS[sid].alphabet(None, ()))}, cap=4)
    total.nontrivial = max(0, total.states - len(sids))
    extra['bounds'] = {'depth': depth, 'pools': sids, 'states_per_depth': per, 'pairs': PAIRS,
                       'alphabet_size': len(SPECS['pool-T'].alphabet(None, ()))}
    return total


def replay(point, res):
    hist.replay_history(__name__, point['sid'], point['hist'], res)
