"""C11 — reading never writes; the first write materialises exactly the path read.

Engine E2 + E1.  E2: histories (reads* write reads* write ...) up to the depth bound on Message,
Segment and Field roots; read operations are chains of depth 1-4 by name, long name and positional
path followed by an observer (len, iteration, repr, empty slice, to_er7, validate); write
operations assign at the end of a chain (text, .value, datatype object).  E1 (thorough): for every
segment of two versions, read then write every leaf path.
Oracle: a read leaves encoding, recursive children listing and validation report unchanged; a
write adds exactly one new linear path of listed elements containing the chain's elements, each
once, and the encoding equals the reference encoding of "old content + value at that position".
"""
from __future__ import annotations

from .. import common, hist, refmodel, tables
from ..common import Result, STRICT, TOLERANT, exc_class, VERSIONS
from .c12 import deep

ID = 'C11'
ENGINE = 'E2 hist'
RULE = ('state = canonical object graph after a history of reads and writes; every transition is judged (read: nothing '
        'observable changes; write: exactly the path appears); non-trivial = reads on elements that do not exist yet and writes')
ASSUMPTIONS = [
    'chains along a fixed set of branches per root (listed in the evidence); leaf values without separators',
    'the canonical key may differ after a read only in traversal bookkeeping, which no public observer shows',
]

V = '2.5'

# chain = tuple of attribute names from the root
MSG_CHAINS = {
    'pid': ('pid',),
    'pid.pid_3': ('pid', 'pid_3'),
    'pid.pid_3.cx_4': ('pid', 'pid_3', 'cx_4'),
    'pid.pid_3.cx_4.hd_1': ('pid', 'pid_3', 'cx_4', 'hd_1'),
    'long': ('pid', 'patient_identifier_list', 'assigning_authority', 'namespace_id'),
    'positional': ('pid', 'pid_3', 'pid_3_4_2'),
    'PID.PID_5.XPN_2': ('PID', 'PID_5', 'XPN_2'),
    'evn.evn_2': ('evn', 'evn_2'),
    'nk1.nk1_2.xpn_1.fn_1': ('nk1', 'nk1_2', 'xpn_1', 'fn_1'),
    'group': ('adt_a01_insurance', 'in1', 'in1_2', 'ce_1'),
    'pid.pid_1': ('pid', 'pid_1'),
    'zzz.zzz_2': ('zzz', 'zzz_2'),
    'pd1.pd1_3.xon_1': ('pd1', 'pd1_3', 'xon_1'),
}
# where the value lands: (segment path for the reference model)
MSG_TARGET = {
    'pid.pid_3': ('PID', 3, None, None), 'pid.pid_3.cx_4': ('PID', 3, 4, None), 'pid.pid_3.cx_4.hd_1': ('PID', 3, 4, 1),
    'long': ('PID', 3, 4, 1), 'positional': ('PID', 3, 4, 2), 'PID.PID_5.XPN_2': ('PID', 5, 2, None), 'evn.evn_2': ('EVN', 2, None, None),
    'nk1.nk1_2.xpn_1.fn_1': ('NK1', 2, 1, 1), 'group': ('IN1', 2, 1, None), 'pid.pid_1': ('PID', 1, None, None),
    'zzz.zzz_2': ('ZZZ', 2, None, None), 'pd1.pd1_3.xon_1': ('PD1', 3, 1, None),
}
SEG_CHAINS = {
    'pid_3': ('pid_3',), 'pid_3.cx_4': ('pid_3', 'cx_4'), 'pid_3.cx_4.hd_1': ('pid_3', 'cx_4', 'hd_1'),
    'long': ('patient_identifier_list', 'assigning_authority', 'namespace_id'), 'positional': ('pid_3', 'pid_3_4_2'),
    'pid_5.xpn_2': ('pid_5', 'xpn_2'), 'pid_1': ('pid_1',), 'pid_11.xad_1.sad_1': ('pid_11', 'xad_1', 'sad_1'),
}
SEG_TARGET = {
    'pid_3': ('PID', 3, None, None), 'pid_3.cx_4': ('PID', 3, 4, None), 'pid_3.cx_4.hd_1': ('PID', 3, 4, 1), 'long': ('PID', 3, 4, 1),
    'positional': ('PID', 3, 4, 2), 'pid_5.xpn_2': ('PID', 5, 2, None), 'pid_1': ('PID', 1, None, None), 'pid_11.xad_1.sad_1': ('PID', 11, 1, 1),
}
ZSEG_CHAINS = {'zzz_1': ('zzz_1',), 'zzz_3': ('zzz_3',), 'zzz_2': ('zzz_2',)}
ZSEG_TARGET = {'zzz_1': ('ZZZ', 1, None, None), 'zzz_3': ('ZZZ', 3, None, None), 'zzz_2': ('ZZZ', 2, None, None)}
FLD_CHAINS = {'cx_1': ('cx_1',), 'cx_4': ('cx_4',), 'cx_4.hd_1': ('cx_4', 'hd_1'), 'cx_4.hd_2': ('cx_4', 'hd_2'), 'long': ('assigning_authority', 'namespace_id'),
              'positional': ('pid_3_4_3',), 'cx_5': ('cx_5',)}
FLD_TARGET = {'cx_1': (None, None, 1, None), 'cx_4': (None, None, 4, None), 'cx_4.hd_1': (None, None, 4, 1), 'cx_4.hd_2': (None, None, 4, 2),
              'long': (None, None, 4, 1), 'positional': (None, None, 4, 3), 'cx_5': (None, None, 5, None)}

TEXT_LEAVES = ('pid.pid_3.cx_4.hd_1', 'PID.PID_5.XPN_2', 'long', 'pid_3.cx_4.hd_1', 'pid_5.xpn_2', 'cx_1', 'cx_4.hd_1', 'zzz_1')
# 'all' = len, iteration, repr, empty slice and truth value one after the other (reads merge into one state anyway)
# 'deref' = the element at the end of the chain is dereferenced (.value, .to_er7(), .children), which instantiates it when missing
OBSERVERS = ('all', 'twice', 'deref')


def walk(root, chain):
    e = root
    for a in chain:
        e = getattr(e, a)
    return e


class ReadSpec(hist.Spec):
    def __init__(self, sid, kind, level, chains, targets, init=None, built=False):
        self.sid, self.kind, self.level, self.chains, self.targets, self.init = sid, kind, level, chains, targets, init
        self.built = built          # the initial content is created through the add_* helpers instead of being parsed

    def build(self):
        from hl7apy.core import Message, Segment, Field
        from hl7apy.parser import parse_message, parse_segment, parse_field
        if self.built:
            if self.kind == 'message':
                r = Message('ADT_A01', version=V, validation_level=self.level)
                r.add_segment('PID').add_field('PID_1').value = '1'
            elif self.kind == 'segment':
                r = Segment('PID', version=V, validation_level=self.level)
                r.add_field('PID_1').value = '1'
            else:
                r = Field('PID_3', version=V, validation_level=self.level)
                r.add_component('CX_1').value = 'I'
            return {'root': r}
        if self.kind == 'message':
            if self.init:
                r = parse_message(self.init, validation_level=self.level, find_groups=True)
            else:
                r = Message('ADT_A01', version=V, validation_level=self.level)
        elif self.kind == 'segment':
            r = parse_segment(self.init, version=V, validation_level=self.level) if self.init else \
                Segment('PID' if 'pid_1' in self.chains else 'ZZZ', version=V, validation_level=self.level)
        else:
            r = parse_field(self.init, 'PID_3', version=V, validation_level=self.level) if self.init else \
                Field('PID_3', version=V, validation_level=self.level)
        return {'root': r}

    def alphabet(self, pool, hist_):
        ops = []
        for c in sorted(self.chains):
            for o in OBSERVERS:
                ops.append(('read', c, o))
        ops.append(('root', 'to_er7'))
        ops.append(('root', 'validate'))
        ops.append(('root', 'children'))
        for c in sorted(self.targets):
            ops.append(('write', c, 'assign', 'V'))
            ops.append(('write', c, 'value', 'W'))
        for c in sorted(self.targets):
            if c in TEXT_LEAVES:
                ops.append(('write', c, 'datatype', 'D'))
        return ops

    def apply(self, pool, op):
        r = pool['root']
        if op[0] == 'root':
            if op[1] == 'to_er7':
                r.to_er7()
            elif op[1] == 'validate':
                try:
                    r.validate(return_errors=True)
                except AttributeError:
                    pass
            else:
                list(r.children), len(r.children), repr(r.children)
            return
        chain = self.chains[op[1]]
        if op[0] == 'read':
            e = walk(r, chain)
            o = op[2]
            if o == 'all':
                len(e)
                list(e)
                repr(e)
                e[0:0]
                bool(e)
            elif o == 'deref':
                e.value
                e.to_er7()
                list(e.children)
            elif o == 'len':
                len(e)
            elif o == 'iter':
                list(e)
            elif o == 'repr':
                repr(e)
            elif o == 'slice':
                e[0:0]
            elif o == 'bool':
                bool(e)
            else:
                walk(r, chain)
                len(walk(r, chain))
            return
        # write
        mode, val = op[2], op[3]
        parent = walk(r, chain[:-1])
        if mode == 'assign':
            setattr(parent, chain[-1], val)
        elif mode == 'value':
            walk(r, chain).value = val
        else:
            from hl7apy.base_datatypes import ST
            leaf = walk(r, chain)
            leaf.value = common.libs()[V].BASE_DATATYPES['ST'](val)

    def leaf_is_text(self, c):
        return c not in ('pid.pid_1', 'pid_1', 'evn.evn_2')

    # ------------------------------------------------------------------ reference content model
    def model_init(self):
        # content: {segment name: {(field, comp, sub): text}} parsed from the initial text by the reference decoder
        m = {}
        if not self.init:
            return m
        ec = refmodel.DEFAULT_EC
        if self.kind == 'field':
            lines = ['XXX|||' + self.init]
        else:
            lines = refmodel.seg_lines(self.init)
        for line in lines:
            name, fields = refmodel.dec_segment(line, ec)
            if name == 'MSH':
                continue
            for i, f in enumerate(fields):
                for ri, rep in enumerate(f.split('~')):
                    for j, c in enumerate(rep.split('^')):
                        for k, s_ in enumerate(c.split('&')):
                            if s_ != '' and ri == 0:
                                m.setdefault(name, {})[(i + 1, j + 1, k + 1)] = s_
        return m

    def model_apply(self, model, op, pool):
        if op[0] != 'write':
            return model, 'ok'
        seg, i, j, k = self.targets[op[1]]
        m = {s: dict(d) for s, d in model.items()}
        if self.kind == 'field':
            seg, i = 'XXX', 3
        d = m.setdefault(seg, {})
        jj, kk = j or 1, k or 1
        # a write at field / component level replaces what is below it
        for key in list(d):
            if key[0] == i and (j is None or key[1] == jj) and (k is None or key[2] == kk):
                del d[key]
        d[(i, jj, kk)] = op[3]
        return m, 'ok'

    def observe(self, pool):
        r = pool['root']
        try:
            rep = hist.report(r)
        except Exception as x:
            rep = ('raise', exc_class(x))
        try:
            full = ('ok', r.to_er7(trailing_children=True))
        except Exception as x:
            full = ('raise', exc_class(x))
        return {'er7': hist.er7(r), 'er7-with-trailing-children': full, 'tree': deep(r), 'report': rep}

    def seg_text(self, name, content):
        fields = {}
        for (i, j, k), t in content.items():
            fields.setdefault(i, {}).setdefault(j, {})[k] = t
        out = {}
        for i, comps in fields.items():
            rep = {}
            for j, subs in comps.items():
                rep[j] = subs[1] if list(subs) == [1] else subs
            out[i] = [rep[1] if list(rep) == [1] and isinstance(rep[1], str) else rep]
        return refmodel.enc_segment(name, out, refmodel.DEFAULT_EC)

    def check(self, res, ctx):
        op = ctx.op
        b, a = ctx.before, ctx.after
        lvl = 'STRICT' if self.level == STRICT else 'TOLERANT'
        point = {'sid': self.sid, 'hist': [list(o) for o in ctx.hist + (op,)]}
        if op[0] in ('read', 'root'):
            res.nontrivial += 1
            if ctx.outcome == 'raise':
                res.violation('read-raises|%s|%s|%s|%s' % (op[1], op[2] if len(op) > 2 else '', self.kind, exc_class(ctx.exc)),
                              '%s: read %r after %r raises %s: %s' % (self.sid, op, list(ctx.hist), exc_class(ctx.exc), ctx.exc), point, ctx.depth)
                return
            for what in ('er7', 'er7-with-trailing-children', 'tree', 'report'):
                if b[what] != a[what]:
                    res.violation('read-writes|%s|%s|%s|%s' % (what, op[1] if op[0] == 'read' else 'root.' + op[1], self.kind, lvl),
                                  '%s: read %r after %r changed the %s: %r -> %r' % (self.sid, op, list(ctx.hist), what,
                                                                                    str(b[what])[:200], str(a[what])[:200]), point, ctx.depth)
                    return
            return
        # write
        if ctx.outcome == 'raise':
            if self.level == STRICT:
                return          # STRICT may refuse values; C12 checks that nothing changed then
            res.violation('write-raises|%s|%s|%s|%s' % (op[1], op[2], self.kind, exc_class(ctx.exc)),
                          '%s: write %r after %r raises %s: %s' % (self.sid, op, list(ctx.hist), exc_class(ctx.exc), ctx.exc), point, ctx.depth)
            return
        # expected encoding
        model = ctx.model_after
        got = a['er7']
        if self.kind == 'message':
            lines = refmodel.seg_lines(got[1]) if got[0] == 'ok' else []
            bysegs = {}
            for l in lines:
                bysegs.setdefault(l[:3], []).append(l)
            for seg, content in model.items():
                want = self.seg_text(seg, content)
                if bysegs.get(seg, [None])[0] != want:
                    res.violation('write-wrong-encoding|%s|%s|%s|%s' % (op[1], op[2], self.kind, lvl),
                                  '%s: after %r + %r segment %s encodes %r, expected %r' % (self.sid, list(ctx.hist), op, seg,
                                                                                          bysegs.get(seg), want), point, ctx.depth)
                    return
            extra = [s for s in bysegs if s != 'MSH' and s not in model]
            if extra or any(len(v) > 1 for v in bysegs.values()):
                res.violation('write-extra|segments|%s|%s|%s' % (op[1], self.kind, lvl),
                              '%s: after %r + %r unexpected segments %r' % (self.sid, list(ctx.hist), op, {k: v for k, v in bysegs.items() if k in extra or len(v) > 1}),
                              point, ctx.depth)
                return
        else:
            seg = 'XXX' if self.kind == 'field' else ('PID' if 'pid_1' in self.chains else 'ZZZ')
            want = self.seg_text(seg, model.get(seg, {}))
            if self.kind == 'field':
                want = want[len('XXX|||'):] if want.startswith('XXX|||') else ''
            if got != ('ok', want):
                res.violation('write-wrong-encoding|%s|%s|%s|%s' % (op[1], op[2], self.kind, lvl),
                              '%s: after %r + %r encodes %r, expected %r' % (self.sid, list(ctx.hist), op, got, want), point, ctx.depth)
                return
        # exactly the chain: the listed nodes that are new form linear paths that end at the written position
        newp = new_paths(b['tree'], a['tree'])
        if not newp:
            return
        # every new node must lie on a single root-to-leaf line (each new node has at most one new child and all new
        # nodes are ancestors/descendants of one another), unless the write replaced existing content below the target
        newp.sort(key=len)
        for x, y in zip(newp, newp[1:]):
            if y[:len(x)] != x:
                res.violation('write-extra|nodes|%s|%s|%s' % (op[1], self.kind, lvl),
                              '%s: after %r + %r new listed elements are not one path: %r' % (self.sid, list(ctx.hist), op, newp[:6]), point, ctx.depth)
                return


def paths(tree, prefix=()):
    out = []
    counts = {}
    for c in tree[4]:
        n = counts.get(c[1], 0)
        counts[c[1]] = n + 1
        p = prefix + ((c[0], c[1], n),)
        out.append(p)
        out.extend(paths(c, p))
    return out


def new_paths(before, after):
    b = set(paths(before))
    return [p for p in paths(after) if p not in b]


MSG_INIT = 'MSH|^~\\&|A|B|||20200229||ADT^A01^ADT_A01|1|P|2.5\rEVN||2020\rPID|1||I^^^AA||F^G'
SPECS = {}
for _s in [ReadSpec('msg-empty-T', 'message', TOLERANT, MSG_CHAINS, MSG_TARGET),
           ReadSpec('msg-parsed-T', 'message', TOLERANT, MSG_CHAINS, MSG_TARGET, MSG_INIT),
           ReadSpec('msg-empty-S', 'message', STRICT, MSG_CHAINS, MSG_TARGET),
           ReadSpec('seg-empty-T', 'segment', TOLERANT, SEG_CHAINS, SEG_TARGET),
           ReadSpec('seg-parsed-T', 'segment', TOLERANT, SEG_CHAINS, SEG_TARGET, 'PID|1||I^^^AA||F^G'),
           ReadSpec('seg-empty-S', 'segment', STRICT, SEG_CHAINS, SEG_TARGET),
           ReadSpec('zseg-T', 'segment', TOLERANT, ZSEG_CHAINS, ZSEG_TARGET),
           ReadSpec('fld-empty-T', 'field', TOLERANT, FLD_CHAINS, FLD_TARGET),
           ReadSpec('fld-parsed-T', 'field', TOLERANT, FLD_CHAINS, FLD_TARGET, 'I^^^AA'),
           ReadSpec('msg-built-T', 'message', TOLERANT, MSG_CHAINS, MSG_TARGET, 'PID|1', built=True),
           ReadSpec('seg-built-T', 'segment', TOLERANT, SEG_CHAINS, SEG_TARGET, 'PID|1', built=True),
           ReadSpec('fld-built-T', 'field', TOLERANT, FLD_CHAINS, FLD_TARGET, 'I', built=True)]:
    SPECS[_s.sid] = _s


# ------------------------------------------------------------------------- E1 sweep (thorough)

DEEP_ROOTS = ('msg-empty-T', 'seg-empty-T', 'fld-empty-T')


def sweep_unit(unit, tier):
    from hl7apy.core import Segment
    v, seg = unit
    res = Result()
    if tables.segment_anomaly(v, seg) or seg == 'ANYHL7SEGMENT' or tables.row_anomalies(v, seg):
        res.blocked['segment with table anomaly (C02 findings)'] += 1
        return res
    ec = refmodel.default_ec(v)
    ec.pop('TRUNCATION', None)
    for i, j, k, dt, row in tables.leaf_positions(v, seg):
        if seg == 'MSH' and i <= 2:
            continue
        rows = dict(tables.field_rows(v, seg))
        fr = rows[i]
        names = [fr.name.lower()]
        if j is not None:
            cr = [c for c in fr.children if tables.comp_index(c.name) == j][0]
            names.append(cr.name.lower())
            if k is not None:
                sr = [c for c in cr.children if tables.comp_index(c.name) == k][0]
                names.append(sr.name.lower())
        s = Segment(seg, version=v)
        res.evaluations += 1
        res.states += 1
        res.enumerated += 1
        res.expected_size += 1
        res.transitions += 3
        point = {'sweep': [v, seg, i, j, k]}
        try:
            before = (s.to_er7(), deep(s))
            e = walk(s, names)
            len(e), list(e), repr(e)
            mid = (s.to_er7(), deep(s))
            lit = tables.literal(dt, v) if tables.is_base(v, dt) else 'x'
            setattr(walk(s, names[:-1]), names[-1], lit)
            after = s.to_er7()
        except Exception as x:
            res.violation('sweep-raises|%s|%s|%s' % (v, seg, exc_class(x)), 'read/write of %s in %s v%s raises %s: %s' % (names, seg, v, exc_class(x), x), point, 5)
            continue
        res.validated += 1
        if before != mid:
            res.violation('read-writes|sweep|%s|%s' % (v, seg), 'reading %s of an empty %s (v%s) changed it: %r -> %r' % (names, seg, v, before[0], mid[0]), point, 5)
        rep = lit if j is None else {j: (lit if k is None else {k: lit})}
        want = refmodel.enc_segment(seg, {i: [rep]}, ec) if seg != 'MSH' else None
        if want is not None and after != want:
            res.violation('write-wrong-encoding|sweep|%s|%s' % (v, seg), 'after reading then writing %s: %r, expected %r' % (names, after, want), point, 5)
        else:
            res.classes['sweep-ok'] += 1
    return res


def run(tier, seed, extra):
    total = Result()
    depth = 3 if tier == 'quick' else 4
    sids = common.rotate(sorted(SPECS), seed)
    # the roots built through the add_* helpers differ from the parsed ones in how their first children were created: one
    # level less is enough to reach a read and a write after that
    depth_of = {sid: depth - 1 for sid in sids if SPECS[sid].built}
    if tier != 'quick':
        # depth 4 multiplies the transitions by the alphabet size (~70): it is spent on one root of each kind, the other
        # roots stay at depth 3
        for sid in sids:
            if sid not in DEEP_ROOTS:
                depth_of[sid] = 3
    out = hist.bfs_many(__name__, sids, depth, tier, total, depth_of=depth_of)
    per = {}
    for sid in sids:
        n, sizes = out[sid]
        per[sid] = sizes
        total.sample({'root': sid, 'states_per_depth': sizes, 'alphabet': len(SPECS[sid].alphabet(None, ()))}, cap=10)
    vs = ['2.5'] if tier == 'quick' else ['2.5', '2.8.2', '2.3']
    units = [(v, s) for v in vs for s in (tables.segment_names(v) if tier != 'quick' else tables.segment_names(v)[::4])]
    sw = common.run_units(sweep_unit, common.rotate(units, seed), tier)
    total.merge(sw)
    extra['bounds'] = {'depth': depth, 'depth_per_root': {sid: depth_of.get(sid, depth) for sid in sids}, 'roots': sids, 'states_per_depth': per, 'sweep_versions': vs,
                       'sweep_segments': len(units), 'chains': {k: list(v) for k, v in MSG_CHAINS.items()}}
    return total


def replay(point, res):
    if 'sweep' in point:
        v, seg = point['sweep'][:2]
        res.merge(sweep_unit((v, seg), 'thorough'))
    else:
        hist.replay_history(__name__, point['sid'], point['hist'], res)
