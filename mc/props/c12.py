"""C12 — a rejected operation leaves its target unchanged.

Engine E2.  States: everything reachable by a subset of the C09 alphabet (set / indexed set / add /
delete / copy) up to the depth bound; from every such state every rejecting operation is tried
(wrong child class or name, foreign or unknown name, cardinality overflow, other validation level
or version, invalid / over-long value under STRICT, deleting an absent child or index, datatype
change on a populated element, value text of another segment / message / version, value whose
children are refused midway).  Oracle: whenever a call raises, the complete public observation
(encoding, recursive children listing with per-node texts and datatypes, per-name repetitions) of
the target, of its donor and of its ancestors is identical before and after, and the C10
invariants hold.
"""
from __future__ import annotations

from .. import common, hist
from ..common import Result, STRICT, TOLERANT, exc_class
from . import c09, c10

ID = 'C12'
ENGINE = 'E2 hist'
RULE = ('state = canonical object graph after a history; a case = one transition that raises; distinct = distinct '
        '(state, operation) pairs; non-trivial = the operation raised')
ASSUMPTIONS = [
    'roots and building alphabet as in C09 (reduced); rejecting operations listed in the evidence',
    'only public observers are compared; exception class is not judged here (C15 / C05 do)',
]

V = '2.5'
_inv = c10.PoolSpec('inv', TOLERANT)


def deep(e, depth=0):
    """Recursive public listing with per-node text and datatype."""
    try:
        kids = list(e.children)
    except Exception:
        kids = []
    try:
        t = e.to_er7()
    except Exception as x:
        t = '!' + type(x).__name__
    dt = getattr(e, 'datatype', None) if type(e).__name__ in ('Field', 'Component', 'SubComponent') else None
    return (type(e).__name__, e.name, dt, t, tuple(deep(c, depth + 1) for c in kids) if depth < 8 else ())


def first_leaf(e):
    """the first valued SubComponent below e (depth first)"""
    for c in e.children:
        if type(c).__name__ == 'SubComponent':
            if c.to_er7() != '':
                return c
        else:
            x = first_leaf(c)
            if x is not None:
                return x
    return None


class RejSpec(c09.ListSpec):
    def __init__(self, *a, **kw):
        self.container = kw.pop('container', None)
        c09.ListSpec.__init__(self, *a, **kw)

    def _make_as(self, init, level, version):
        """the donor text built at another validation level / in another version"""
        from hl7apy.core import Group
        from hl7apy.parser import parse_segment, parse_message, parse_field
        if self.kind == 'segment':
            return parse_segment(init, version=version, validation_level=level)
        if self.kind == 'field':
            return parse_field(init, self.root_name, version=version, validation_level=level)
        if self.kind == 'group':
            g = Group(self.root_name, version=version, validation_level=level)
            g.value = init
            return g
        return parse_message(init.replace('|P|' + V, '|P|' + version), validation_level=level, find_groups=False)

    def build(self):
        p = c09.ListSpec.build(self)
        if self.container:
            from hl7apy.parser import parse_message
            top = parse_message(self.container, validation_level=self.level, find_groups=False)
            top.add(p['root'])
            p['top'] = top
        return p

    def other_level(self):
        return STRICT if self.level == TOLERANT else TOLERANT

    def alphabet(self, pool, hist_):
        ops = []
        for n in self.names:
            v1, v2 = self.values[n]
            ops.append(('set', n, v1))
            ops.append(('setidx', n, 1, v2))
            ops.append(('add_el', n, v1))
            ops.append(('del', n))
            ops.append(('copy', n))
        ops.append(('pop', 1))
        ops += self.rejecting()
        return ops

    def rejecting(self):
        n0, n1, n2 = self.names
        r = [('rej_add_wrongclass',), ('rej_add_foreign',), ('rej_set_wrongname', n1, n2), ('rej_set_unknown',), ('rej_set_foreign',),
             ('rej_value_other',), ('rej_del_absent',), ('rej_delidx', n1, 5), ('rej_delidx', n0, 1), ('rej_remove_foreign',),
             ('rej_pop', 9)]
        for n in self.names:
            r.append(('rej_add_level', n))
            r.append(('rej_set_level', n))
            r.append(('rej_set_version', n))
            r.append(('rej_setidx_level', n, 0))
            r.append(('rej_setidx_level', n, 1))
        # a value refused by a leaf that already holds one (assigned to the subcomponent object itself)
        r.append(('rej_leaf_value', 'number'))
        r.append(('rej_leaf_value', 'list'))
        if self.level == STRICT:
            r.append(('rej_leaf_value', 'too-long'))
        for n in self.names:
            r.append(('rej_dt_object', n))
            # a child that already belongs to another element, refused by the second stage of admission
            r.append(('rej_move_level', n))
            r.append(('rej_move_version', n))
        r.append(('rej_reparent_level', n1))
        r.append(('rej_reparent_version', n0))
        if self.kind in ('segment', 'field'):
            r.append(('rej_dt_change', n1))
            r.append(('rej_dt_change', n0))
        if self.kind in ('segment', 'message'):
            r.append(('rej_trav_value',))
            r.append(('rej_trav_assign',))
            r.append(('rej_trav_level',))
            r.append(('rej_trav_version',))
        if self.level == STRICT:
            r.append(('rej_overflow', n0))
            r.append(('rej_move_overflow', n0))
            r.append(('rej_value_overflow',))
            if self.kind == 'segment':
                r.append(('rej_invalid', n0))
                r.append(('rej_toolong',))
                r.append(('rej_value_invalid',))
        else:
            r.append(('rej_value_overflow',))
        return r

    def apply(self, pool, op):
        from hl7apy.core import Segment, Field, Component, SubComponent, Message, Group
        k = op[0]
        if not k.startswith('rej_'):
            return c09.ListSpec.apply(self, pool, op)
        r = pool['root']
        lvl, oth = self.level, self.other_level()

        def child(name, text, level=lvl, version=V):
            from hl7apy.parser import parse_segment
            if self.kind == 'segment':
                f = Field(name, version=version, validation_level=level)
            elif self.kind == 'field':
                f = Component(name, version=version, validation_level=level)
            elif text[:3] == name:
                return parse_segment(text, version=version, validation_level=level)
            else:
                f = Group(name, version=version, validation_level=level)
            f.value = text
            return f
        if k == 'rej_add_wrongclass':
            r.add(SubComponent(datatype='ST', value='w', version=V, validation_level=lvl) if self.kind != 'field'
                  else Segment('PID', version=V, validation_level=lvl))
        elif k == 'rej_add_foreign':
            foreign = {'segment': ('NK1_1', '1'), 'field': ('XPN_1', 'x'), 'message': ('OBX', 'OBX|1'), 'group': ('OBX', 'OBX|1')}[self.kind]
            saved = self.kind
            if self.kind == 'segment':
                f = Field(foreign[0], version=V, validation_level=lvl)
                f.value = foreign[1]
            elif self.kind == 'field':
                f = Component(foreign[0], version=V, validation_level=lvl)
                f.value = foreign[1]
            else:
                f = Segment(foreign[0], version=V, validation_level=lvl)
            r.add(f)
        elif k == 'rej_set_wrongname':
            setattr(r, op[1], child(op[2], self.values[op[2]][0]))
        elif k == 'rej_set_unknown':
            setattr(r, 'qqq_9', 'x')
        elif k == 'rej_set_foreign':
            setattr(r, {'segment': 'nk1_1', 'field': 'xpn_1', 'message': 'pid_3', 'group': 'pid_3'}[self.kind], 'x')
        elif k == 'rej_value_other':
            r.value = {'segment': 'NK1|1|x', 'field': None, 'message': 'PID|1||x', 'group': None}[self.kind] or 'MSH|^~\\&|||||||ACK|1|P|2.4'
        elif k == 'rej_del_absent':
            delattr(r, {'segment': 'pid_18', 'field': 'cx_9', 'message': 'pd1', 'group': 'in2'}.get(self.kind) if self.root_name in ('PID', 'PID_3', 'ADT_A01', 'ADT_A01_INSURANCE') else 'qqq_1')
        elif k == 'rej_delidx':
            del getattr(r, op[1])[op[2]]
        elif k == 'rej_remove_foreign':
            r.children.remove(pool['donor'].children[0])
        elif k == 'rej_pop':
            r.children.pop(op[1])
        elif k == 'rej_add_level':
            r.add(child(op[1], self.values[op[1]][0], level=oth))
        elif k == 'rej_set_level':
            setattr(r, op[1], child(op[1], self.values[op[1]][0], level=oth))
        elif k == 'rej_set_version':
            setattr(r, op[1], child(op[1], self.values[op[1]][0], version='2.4'))
        elif k == 'rej_setidx_level':
            getattr(r, op[1])[op[2]] = child(op[1], self.values[op[1]][0], level=oth)
        elif k == 'rej_dt_object':
            # a base datatype object assigned to a child that is not of a base datatype (or is not a leaf at all)
            setattr(r, op[1], common.libs()[V].BASE_DATATYPES['ST']('x'))
        elif k in ('rej_move_level', 'rej_move_version', 'rej_reparent_level', 'rej_reparent_version', 'rej_move_overflow'):
            if k == 'rej_move_overflow':
                d = pool['donor']
            else:
                # a donor built for this call only (other level / other version); it is observed before the call here and
                # after the call with the rest of the pool, and it is not part of the state that the search continues from
                d = self._make_as(self.donor_init, oth if k.endswith('level') else lvl, V if k.endswith('level') else '2.4')
                pool['donor_x'] = d
                self._before_x = (hist.er7(d), deep(d), self.reps(d))
            c = [x for x in d.children if x.name == op[1]][0]
            if k.startswith('rej_reparent'):
                c.parent = r
            else:
                r.add(c)
        elif k == 'rej_leaf_value':
            leaf = first_leaf(r)
            if leaf is None:
                raise LookupError('no valued leaf')
            leaf.value = {'number': 3.5, 'list': ['x'], 'too-long': 'y' * 70000}[op[1]]
        elif k == 'rej_dt_change':
            getattr(r, op[1])[0].datatype = 'HD' if self.kind == 'segment' else 'CE'
        elif k == 'rej_overflow':
            r.add(child(op[1], self.values[op[1]][0]))
        elif k == 'rej_invalid':
            setattr(r, op[1], 'abc')
        elif k == 'rej_toolong':
            setattr(r, 'pid_8', 'x' * 30)
        elif k == 'rej_value_invalid':
            r.value = 'PID|abc||ok'
        elif k == 'rej_trav_value':
            # value refused at the end of a traversal over elements that do not exist yet
            if self.kind == 'segment':
                r.pid_7.value = 'bad^x' if self.level == STRICT else common.libs()[V].BASE_DATATYPES['ST']('x')
            else:
                r.pd1.pd1_13.value = 'bad' if self.level == STRICT else common.libs()[V].BASE_DATATYPES['ST']('x')
        elif k == 'rej_trav_assign':
            if self.kind == 'segment':
                r.pid_7.ts_1 = 'bad' if self.level == STRICT else Field('PID_3', version=V, validation_level=lvl)
            else:
                r.pd1.pd1_13 = 'bad' if self.level == STRICT else Segment('PID', version=V, validation_level=lvl)
        elif k in ('rej_trav_level', 'rej_trav_version'):
            # an element refused at admission (other level / version) assigned at the end of a traversal over elements
            # that do not exist yet: nothing of the path may stay behind
            lv, ve = (oth, V) if k == 'rej_trav_level' else (lvl, '2.4')
            if self.kind == 'segment':
                c = Component('TS_1', version=ve, validation_level=lv)
                c.value = '2020'
                r.pid_7.ts_1 = c
            else:
                f = Field('PD1_3', version=ve, validation_level=lv)
                f.value = 'x'
                r.pd1.pd1_3 = f
        elif k == 'rej_value_overflow':
            # a value whose children are refused midway (two children where one is allowed, STRICT) or an element of
            # another segment in the middle
            r.value = {'segment': 'PID|1~2||Q', 'field': 'A^B^C^D&E&F&G^H', 'message': None, 'group': 'IN1|1\rIN1|2'}[self.kind] or \
                (c09.MSG + '\rEVN||2030')
        else:
            raise common.HarnessError('unknown op %r' % (op,))

    def model_apply(self, model, op, pool):
        if op[0].startswith('rej_'):
            return model, None
        return c09.ListSpec.model_apply(self, model, op, pool)

    def observe(self, pool):
        return {k: (hist.er7(v), deep(v), self.reps(v) if k in ('root', 'donor', 'donor_x') else None) for k, v in pool.items()}

    def state_objects(self, pool):
        return [v for k, v in pool.items() if k != 'donor_x']

    def check(self, res, ctx):
        if ctx.outcome != 'raise':
            return
        op = ctx.op
        res.nontrivial += 1
        cause = exc_class(ctx.exc)
        point = {'sid': self.sid, 'hist': [list(o) for o in ctx.hist + (op,)]}
        for who in sorted(ctx.after):
            movers = ('rej_move_level', 'rej_move_version', 'rej_reparent_level', 'rej_reparent_version')
            b, a = (self._before_x if who == 'donor_x' and op[0] in movers else ctx.before.get(who)), ctx.after[who]
            if b is None:
                continue
            if b != a:
                what = 'encoding' if b[0] != a[0] else 'children'
                res.violation('non-atomic|%s|%s|%s|%s|%s' % (op[0], cause, self.kind, 'STRICT' if self.level == STRICT else 'TOLERANT', who),
                              '%s: %r after %r raises %s but the %s changed (%s): %r -> %r'
                              % (self.sid, op, list(ctx.hist), cause, who, what, b[0], a[0]), point, ctx.depth)
                return
        bad = _inv.invariants({k: v for k, v in ctx.pool.items() if k != 'donor_x'})
        if bad:
            pre, _, _ = hist.run_history(self, ctx.hist)
            if not _inv.invariants(pre):
                res.violation('half-attached|%s|%s|%s|%s' % (op[0], cause, self.kind, bad[0][0]),
                              '%s: %r after %r raises %s and leaves the tree inconsistent: %s' % (self.sid, op, list(ctx.hist), cause, bad[0][1]),
                              point, ctx.depth)


SPECS = {}


def _add(s):
    SPECS[s.sid] = s


A = c09
_add(RejSpec('seg-T', 'segment', TOLERANT, 'PID', 'PID|1||A~B~C||X^Y', A.PID_NAMES, A.PID_VALUES, A.PID_MAX, A.PID_LONG, 'PID|9||D1~D2||DN'))
_add(RejSpec('seg-S', 'segment', STRICT, 'PID', 'PID|1||A~B~C||X^Y', A.PID_NAMES, A.PID_VALUES, A.PID_MAX, A.PID_LONG, 'PID|9||D1~D2||DN'))
_add(RejSpec('seg-in-msg-T', 'segment', TOLERANT, 'PID', 'PID|1||A~B', A.PID_NAMES, A.PID_VALUES, A.PID_MAX, A.PID_LONG, 'PID|9||D1',
             container='MSH|^~\\&|A|B|||20200229||ADT^A01^ADT_A01|1|P|2.5\rEVN||2020'))
# empty targets: nothing to fall back on when a value is refused midway
_add(RejSpec('seg-empty-S', 'segment', STRICT, 'PID', '', A.PID_NAMES, A.PID_VALUES, A.PID_MAX, A.PID_LONG, 'PID|9||D1~D2||DN'))
_add(RejSpec('grp-empty-S', 'group', STRICT, 'ADT_A01_INSURANCE', '', A.GRP_NAMES, A.GRP_VALUES, A.GRP_MAX, None, 'IN1|9|D\rIN3|9'))
# segments that take fields beyond their table (Z segment, segment ending with a field of datatype varies)
_add(RejSpec('seg-z-T', 'segment', TOLERANT, 'ZZZ', 'ZZZ|p|q||r', A.ZZZ_NAMES, A.ZZZ_VALUES, {}, None, 'ZZZ|d1|d2'))
_add(RejSpec('seg-qpd-S', 'segment', STRICT, 'QPD', 'QPD|Q||k|||x', A.QPD_NAMES, A.QPD_VALUES, {'QPD_1': 1}, None, 'QPD|D'))
_add(RejSpec('fld-T', 'field', TOLERANT, 'PID_3', 'I^^^AA', A.FLD_NAMES, A.FLD_VALUES, A.FLD_MAX, A.FLD_LONG, 'DI^^^DA^DT'))
_add(RejSpec('fld-S', 'field', STRICT, 'PID_3', 'I^^^AA', A.FLD_NAMES, A.FLD_VALUES, A.FLD_MAX, A.FLD_LONG, 'DI^^^DA^DT'))
_add(RejSpec('msg-T', 'message', TOLERANT, 'ADT_A01', A.MSG, A.MSG_NAMES, A.MSG_VALUES, A.MSG_MAX, None, A.MSG.replace('NK1|1|A', 'NK1|5|DA')))
_add(RejSpec('msg-S', 'message', STRICT, 'ADT_A01', A.MSG, A.MSG_NAMES, A.MSG_VALUES, A.MSG_MAX, None, A.MSG.replace('NK1|1|A', 'NK1|5|DA')))
_add(RejSpec('grp-T', 'group', TOLERANT, 'ADT_A01_INSURANCE', 'IN1|1|A\rIN3|1\rIN3|2', A.GRP_NAMES, A.GRP_VALUES, A.GRP_MAX, None, 'IN1|9|D\rIN3|9'))
_add(RejSpec('grp-S', 'group', STRICT, 'ADT_A01_INSURANCE', 'IN1|1|A\rIN3|1\rIN3|2', A.GRP_NAMES, A.GRP_VALUES, A.GRP_MAX, None, 'IN1|9|D\rIN3|9'))


def run(tier, seed, extra):
    total = Result()
    depth = 3 if tier == 'quick' else 4
    sids = common.rotate(sorted(SPECS), seed)
    out = hist.bfs_many(__name__, sids, depth, tier, total)
    per = {}
    for sid in sids:
        n, sizes = out[sid]
        per[sid] = sizes
        total.sample({'root': sid, 'states_per_depth': sizes, 'rejecting_ops': [list(o) for o in SPECS[sid].rejecting()][:8]}, cap=10)
    extra['bounds'] = {'depth': depth, 'roots': sids, 'states_per_depth': per,
                       'alphabet_size': {sid: len(SPECS[sid].alphabet(None, ())) for sid in sids}}
    return total


def replay(point, res):
    hist.replay_history(__name__, point['sid'], point['hist'], res)
