"""C13 — base datatype values: acceptance matches the HL7 lexical forms and text is preserved.

Engine E1.  Enumerated completely (per distinct datatype class object, through every version's
factory for the reduced grids): DT date grid (years x months 00-13 x days 00-32, all lengths),
TM time-of-day grid 00-29 x 00-69 x 00-69 at the three precisions, fraction forms, all offsets
+/-HHMM with HH 00-29 and MM 00-69 plus 3- and 5-digit forms, DTM date grid x time precisions and
calendar boundaries x full time, every valid literal with every single position replaced by every
symbol of {0-9 . + - blank E _}, all strings <= 4 (5) over a numeric alphabet for NM and SI,
lengths around each maximum length.  Every string goes through datatype_factory under STRICT and
TOLERANT, SubComponent(...).to_er7() and the utils.check_* predicates.
Oracle: three-valued reference definitions (must-accept / must-reject / unspecified).
"""
from __future__ import annotations

import calendar
import itertools
import re
from decimal import Decimal

from .. import common
from ..common import Result, VERSIONS, libs, STRICT, TOLERANT, exc_class, is_lib_exc

ID = 'C13'
ENGINE = 'E1 grid'
RULE = ('strings from complete grids (date, time-of-day, offset, fraction), single-position substitutions of valid '
        'literals, and all short strings over a numeric alphabet; distinct = distinct (datatype, string); non-trivial = '
        'the string is not one of the canonical literals')
ASSUMPTIONS = [
    'lexical forms: DT YYYY[MM[DD]]; TM HH[MM[SS[.S{1,4}]]][+/-ZZZZ]; DTM YYYY[MM[DD[HH[MM[SS[.S{1,4}]]]]]][+/-ZZZZ]; '
    'NM [+-]?digits[.digits]; SI digits',
    'unspecified (never reported): years < 1000, offsets +14MM / -12MM with MM > 0, NM ".5" and "5.", SI "+digits", '
    'empty string',
    'calendar: proleptic Gregorian for years 1000-9999 (python calendar module used as reference)',
]

ACCEPT, REJECT, UNSPEC = 'must-accept', 'must-reject', 'unspecified'


# ------------------------------------------------------------------------- reference definitions

def days_in(y, m):
    return calendar.monthrange(y, m)[1]


def ref_date(s):
    """-> (verdict, lexical class)"""
    if not s.isascii() or not s.isdigit():
        return REJECT, 'non-digit'
    if len(s) not in (4, 6, 8):
        return REJECT, 'bad-length'
    y = int(s[:4])
    if y < 1000:
        return UNSPEC, 'year<1000'
    if len(s) >= 6:
        m = int(s[4:6])
        if not 1 <= m <= 12:
            return REJECT, 'month-range'
        if len(s) == 8:
            d = int(s[6:8])
            if not 1 <= d <= days_in(y, m):
                return REJECT, 'day-range'
    return ACCEPT, 'date-%d' % len(s)


_OFF = re.compile(r'^(.*?)([+-])(\d{4})$', re.S)


def ref_offset(sign, digits):
    hh, mm = int(digits[:2]), int(digits[2:])
    if mm > 59:
        return REJECT, 'offset-minute-range'
    lim = 14 if sign == '+' else 12
    if hh > lim:
        return REJECT, 'offset-hour-range'
    if hh == lim and mm > 0:
        return UNSPEC, 'offset-beyond-extreme-hour'
    return ACCEPT, 'offset'


def split_off(s):
    """body, (sign, digits) | None, malformed-offset?"""
    i = max(s.rfind('+'), s.rfind('-'))
    if i < 0:
        return s, None, False
    tail = s[i + 1:]
    if len(tail) == 4 and tail.isascii() and tail.isdigit():
        return s[:i], (s[i], tail), False
    return s[:i], None, True


def ref_timeofday(body):
    """body without offset: HH[MM[SS[.S{1,4}]]]"""
    m = re.fullmatch(r'(\d{2})(?:(\d{2})(?:(\d{2})(?:\.(\d+))?)?)?', body, re.A)
    if not m:
        if re.fullmatch(r'[\d.]*', body, re.A) and body:
            return REJECT, 'time-form'
        return REJECT, 'non-digit'
    hh, mm, ss, fr = m.groups()
    if int(hh) > 23:
        return REJECT, 'hour-range'
    if mm is not None and int(mm) > 59:
        return REJECT, 'minute-range'
    if ss is not None and int(ss) > 59:
        return REJECT, 'second-range'
    if fr is not None and not 1 <= len(fr) <= 4:
        return REJECT, 'fraction-digits'
    prec = 'H' if mm is None else 'HM' if ss is None else 'HMS' if fr is None else 'HMS.%d' % len(fr)
    return ACCEPT, 'time-' + prec


def ref_time(s):
    body, off, bad = split_off(s)
    if bad:
        return REJECT, 'offset-form'
    v, c = ref_timeofday(body)
    if v != ACCEPT:
        return v, c
    if off is not None:
        vo, co = ref_offset(*off)
        if vo != ACCEPT:
            return vo, co
        return ACCEPT, c + '+off'
    return ACCEPT, c


def ref_datetime(s):
    body, off, bad = split_off(s)
    if bad:
        return REJECT, 'offset-form'
    date, rest = body[:8], body[8:]
    if rest == '':
        vd, cd = ref_date(date)
    else:
        if len(date) < 8:
            return REJECT, 'bad-length'
        vd, cd = ref_date(date)
    if vd == REJECT:
        return vd, cd
    if rest != '':
        vt, ct = ref_timeofday(rest)
        if vt != ACCEPT:
            return vt, ct
        cd = cd + '+' + ct
    if vd == UNSPEC:
        return vd, cd
    if off is not None:
        vo, co = ref_offset(*off)
        if vo != ACCEPT:
            return vo, co
        cd += '+off'
    return ACCEPT, cd


def ref_nm(s):
    if re.fullmatch(r'[+-]?\d+(\.\d+)?', s, re.A):
        return ACCEPT, 'signed' if s[0] in '+-' else 'plain'
    if re.fullmatch(r'[+-]?(\d+\.|\.\d+)', s, re.A):
        return UNSPEC, 'dot-edge'
    if ' ' in s or '\n' in s:
        return REJECT, 'blank'
    if '_' in s:
        return REJECT, 'underscore'
    if 'E' in s or 'e' in s:
        return REJECT, 'exponent'
    return REJECT, 'malformed'


def ref_si(s):
    if re.fullmatch(r'\d+', s, re.A):
        return ACCEPT, 'plain'
    if re.fullmatch(r'\+\d+', s, re.A):
        return UNSPEC, 'plus-sign'
    if re.fullmatch(r'-\d+', s, re.A):
        return REJECT, 'negative'
    if ' ' in s or '\n' in s:
        return REJECT, 'blank'
    if '_' in s:
        return REJECT, 'underscore'
    return REJECT, 'malformed'


REF = {'DT': ref_date, 'TM': ref_time, 'DTM': ref_datetime, 'NM': ref_nm, 'SI': ref_si}
MAXLEN = {'NM': 16, 'SI': 4}


def plain_decimal(s):
    """text a numeric must re-encode to verbatim: no sign '+', no leading zeros, no exponent."""
    return re.fullmatch(r'-?(0|[1-9]\d*)(\.\d+)?', s, re.A) is not None


# ------------------------------------------------------------------------- the check of one string

def check(res, dt, s, v, via='factory'):
    from hl7apy.factories import datatype_factory
    from hl7apy.core import SubComponent
    from hl7apy.exceptions import MaxLengthReached
    verdict, lex = REF[dt](s)
    res.evaluations += 1
    res.transitions += 2
    res.enumerated += 1
    point = {'dt': dt, 's': s, 'v': v, 'via': via}

    def call(level):
        try:
            if via == 'factory':
                o = datatype_factory(dt, s, v, level)
                return 'ok', o.to_er7()
            else:
                sc = SubComponent(datatype=dt, value=s, version=v, validation_level=level)
                return 'ok', sc.to_er7()
        except Exception as e:
            return 'raise', e

    ks, os_ = call(STRICT)
    kt, ot = call(TOLERANT)
    res.validated += 1
    res.classes['%s/%s/%s' % (dt, verdict, 'strict-' + ks)] += 1
    # TOLERANT never raises, for every string
    if kt == 'raise':
        res.violation('%s|tolerant-raises|%s|%s' % (dt, lex, exc_class(ot)),
                      'TOLERANT %s(%r) raises %s: %s' % (dt, s, exc_class(ot), ot), point, len(s))
    # STRICT failures must be ValueError or a library exception, never another crash
    if ks == 'raise' and not (isinstance(os_, ValueError) or is_lib_exc(os_)):
        res.violation('%s|wrong-exception|%s|%s' % (dt, lex, exc_class(os_)),
                      'STRICT %s(%r) raises %s: %s' % (dt, s, exc_class(os_), os_), point, len(s))
    if verdict == UNSPEC:
        res.unspecified['%s:%s' % (dt, lex)] += 1
        return
    too_long = dt in MAXLEN and len(s) > MAXLEN[dt]
    if verdict == ACCEPT:
        if ks == 'raise':
            if too_long and isinstance(os_, MaxLengthReached):
                res.classes['%s/maxlength-rejected' % dt] += 1
            else:
                res.violation('%s|rejects-valid|%s' % (dt, lex), 'STRICT %s(%r) raises %s: %s' % (dt, s, exc_class(os_), os_),
                              point, len(s))
            # TOLERANT must still keep the text
            if kt == 'ok' and ot != s and not (dt in ('NM', 'SI') and same_number(ot, s)):
                res.violation('%s|text-changed|tolerant|%s' % (dt, lex), 'TOLERANT %s(%r).to_er7() = %r' % (dt, s, ot), point, len(s))
            return
        if too_long and dt in MAXLEN:
            # numerics: the limit applies to the normalised number; '0000000000000000001' may legitimately pass
            pass
        if dt in ('NM', 'SI'):
            if not same_number(os_, s):
                res.violation('%s|number-changed|%s' % (dt, lex), 'STRICT %s(%r).to_er7() = %r' % (dt, s, os_), point, len(s))
            elif plain_decimal(s) and os_ != s:
                res.violation('%s|text-changed|%s' % (dt, lex_of_change(s, os_)), 'STRICT %s(%r).to_er7() = %r (plain decimal form)' % (dt, s, os_),
                              point, len(s))
        elif os_ != s:
            res.violation('%s|text-changed|%s' % (dt, lex), 'STRICT %s(%r).to_er7() = %r' % (dt, s, os_), point, len(s))
        if kt == 'ok' and ot != os_:
            res.violation('%s|levels-differ|%s' % (dt, lex), '%s(%r): STRICT encodes %r, TOLERANT %r' % (dt, s, os_, ot), point, len(s))
    else:  # must-reject
        if ks == 'ok':
            res.violation('%s|accepts-invalid|%s' % (dt, lex), 'STRICT %s(%r) is accepted (encodes as %r)' % (dt, s, os_), point, len(s))
        if kt == 'ok' and ot != s:
            res.violation('%s|text-changed|tolerant|%s' % (dt, lex), 'TOLERANT %s(%r).to_er7() = %r' % (dt, s, ot), point, len(s))


def same_number(a, b):
    try:
        return Decimal(a) == Decimal(b)
    except Exception:
        return False


def lex_of_change(s, out):
    if 'E' in out or 'e' in out:
        return 'exponent-notation-introduced'
    return 'other'


def check_util(res, dt, s):
    from hl7apy import utils
    fn = {'DT': utils.check_date, 'TM': utils.check_timestamp, 'DTM': utils.check_datetime}[dt]
    verdict, lex = REF[dt](s)
    res.evaluations += 1
    res.transitions += 1
    try:
        got = fn(s)
    except Exception as e:
        res.violation('%s|check-util-raises|%s|%s' % (dt, lex, exc_class(e)), 'utils check for %s(%r) raises %s' % (dt, s, exc_class(e)),
                      {'dt': dt, 's': s, 'v': '2.5', 'via': 'util'}, len(s))
        return
    if verdict == ACCEPT and got is not True:
        res.violation('%s|check-util|rejects-valid|%s' % (dt, lex), 'utils check for %s(%r) = %r' % (dt, s, got),
                      {'dt': dt, 's': s, 'v': '2.5', 'via': 'util'}, len(s))
    if verdict == REJECT and got is not False:
        res.violation('%s|check-util|accepts-invalid|%s' % (dt, lex), 'utils check for %s(%r) = %r' % (dt, s, got),
                      {'dt': dt, 's': s, 'v': '2.5', 'via': 'util'}, len(s))


# ------------------------------------------------------------------------- grids

YEARS_Q = [1000, 1600, 1900, 1999, 2000, 2023, 2024, 2100, 2400, 9999]
SUBST = '0123456789.+- E_\n'
LITS = {
    'DT': ['2020', '202002', '20200229'],
    'TM': ['12', '1230', '123045', '123045.1', '123045.1234', '12+0100', '1230-0500', '123045.12+1400'],
    'DTM': ['2020', '202002', '20200229', '2020022912', '202002291230', '20200229123045', '20200229123045.1',
            '20200229123045.1234', '20200229123045.1234+0100', '2020-0500', '202002291230+1400'],
    'NM': ['0', '7', '12.5', '-3', '+3', '0.05', '100', '1234567890123456'],
    'SI': ['0', '7', '42', '9999'],
}


def dt_grid(tier):
    years = YEARS_Q if tier == 'quick' else list(range(1000, 10000))
    for y in years:
        ys = '%04d' % y
        yield ys
        yield ys[:3]
        yield ys + '1'
        for m in range(0, 14):
            ms = ys + '%02d' % m
            yield ms
            if tier == 'quick' or y in YEARS_Q or m == 2:
                for d in range(0, 33):
                    yield ms + '%02d' % d
            else:
                for d in (0, 1, 28, 29, 30, 31, 32):
                    yield ms + '%02d' % d
        yield ys + '011'
    for y in (0, 1, 999):
        yield '%04d' % y
        yield '%04d0101' % y


def tm_grid_hour(h):
    hs = '%02d' % h
    yield hs
    for m in range(70):
        ms = hs + '%02d' % m
        yield ms
        for s in range(70):
            yield ms + '%02d' % s


FRACS = ['.', '.1', '.12', '.123', '.1234', '.12345', '.1a', '1', '.1.2']
TM_BODIES = ['12', '1230', '123045', '123045.12']


def offsets():
    for sign in '+-':
        for h in range(30):
            for m in range(70):
                yield '%s%02d%02d' % (sign, h, m)
        for odd in ('100', '01000', '1', '', '01:00'):
            yield sign + odd


def dtm_grid(tier):
    times = ['', '12', '1230', '123045', '123045.1', '123045.1234']
    for d in dt_grid('quick'):
        for t in times:
            if t and len(d) < 8:
                continue
            yield d + t
    # calendar boundaries x full time
    years = YEARS_Q if tier == 'quick' else list(range(1000, 10000, 1 if tier == 'thorough' else 100))
    for y in years:
        for m in range(1, 13):
            n = days_in(y, m)
            for d in (n, n + 1):
                yield '%04d%02d%02d235959.9999' % (y, m, d)
    # time grid on one date at each precision boundary
    for h in (0, 23, 24):
        for m in (0, 59, 60):
            for s in (0, 59, 60):
                yield '20200229%02d%02d%02d' % (h, m, s)


def substitutions(dt):
    for lit in LITS[dt]:
        yield lit
        for i in range(len(lit)):
            for ch in SUBST:
                if ch != lit[i]:
                    yield lit[:i] + ch + lit[i + 1:]
        for ch in SUBST:           # insertion at either end
            yield ch + lit
            yield lit + ch


def short_strings(alpha, n):
    for ln in range(1, n + 1):
        for t in itertools.product(alpha, repeat=ln):
            yield ''.join(t)


NUM_ALPHA = '019.+- E_'


def units(tier):
    us = []
    v0 = {'DT': '2.5', 'TM': '2.5', 'DTM': '2.5', 'NM': '2.5', 'SI': '2.5'}
    us.append(('dt-grid', '2.5'))
    for h in range(30):
        us.append(('tm-hour', h))
    us.append(('tm-frac-off',))
    us.append(('dtm-grid',))
    us.append(('num', 'NM', 0))
    us.append(('num', 'SI', 0))
    for v in VERSIONS:
        us.append(('subst', v))
    us.append(('maxlen',))
    return us


def has_dt(v, dt):
    return dt in libs()[v].BASE_DATATYPES


def run_unit(unit, tier):
    res = Result()
    kind = unit[0]
    seen = set()

    def once(dt, s, v, via='factory'):
        if (dt, s, v, via) in seen:
            return
        seen.add((dt, s, v, via))
        res.states += 1
        if s not in LITS[dt]:
            res.nontrivial += 1
        check(res, dt, s, v, via)

    if kind == 'dt-grid':
        for s in dt_grid(tier):
            once('DT', s, '2.5')
            if (dt_key := ('u', s)) not in seen:
                seen.add(dt_key)
                check_util(res, 'DT', s)
        res.dims['DT date-grid strings'] += res.states
    elif kind == 'tm-hour':
        for s in tm_grid_hour(unit[1]):
            once('TM', s, '2.5')
            check_util(res, 'TM', s)
        res.dims['TM time-of-day grid strings'] += res.states
    elif kind == 'tm-frac-off':
        n0 = res.states
        for b in ('123045',):
            for f in FRACS:
                once('TM', b + f, '2.5')
                once('TM', b + f + '+0100', '2.5')
                once('DTM', '20200229' + b + f, '2.5')
                check_util(res, 'TM', b + f)
        for b in TM_BODIES:
            for o in offsets():
                once('TM', b + o, '2.5')
        for b in ('2020', '20200229', '20200229123045.1'):
            for o in offsets():
                once('DTM', b + o, '2.5')
                check_util(res, 'DTM', b + o)
        # a date takes no offset, a time of day no date: each class with the well-formed literals of the other two
        for b in ('2020', '202002', '20200229'):
            for o in offsets():
                once('DT', b + o, '2.5')
                check_util(res, 'DT', b + o)
        for lit in LITS['TM'] + LITS['DTM']:
            once('DT', lit, '2.5')
        for lit in LITS['DTM'][3:]:
            once('TM', lit, '2.5')
        res.dims['fraction/offset strings'] += res.states - n0
    elif kind == 'dtm-grid':
        for s in dtm_grid(tier):
            once('DTM', s, '2.5')
            check_util(res, 'DTM', s)
        res.dims['DTM grid strings'] += res.states
    elif kind == 'num':
        dt = unit[1]
        n = 4 if tier == 'quick' else 5
        for s in short_strings(NUM_ALPHA, n):
            once(dt, s, '2.5')
        for s in ('0.0000001', '0.00000001', '123456.000001', '1.10', '10', '100', '1000', '00', '007', '-0', '0.0', '-0.50'):
            once(dt, s, '2.5')
        if dt == 'NM':
            # many significant digits (the length limit is STRICT's business; TOLERANT keeps the number as written)
            digits = '1234567891234567891234567'
            for n in range(14, 25):
                for s in (digits[:n], '3.' + digits[:n - 1], '+' + '9' * n, '-0.' + '0' * 5 + digits[:n], digits[:n - 3] + '.' + digits[:3]):
                    once(dt, s, '2.5')
                    once(dt, s, '2.7')
        res.dims['%s short strings' % dt] += res.states
    elif kind == 'subst':
        v = unit[1]
        for dt in ('DT', 'TM', 'DTM', 'NM', 'SI'):
            if not has_dt(v, dt):
                res.dims['datatype %s absent in %s' % (dt, v)] += 1
                continue
            for s in substitutions(dt):
                once(dt, s, v)
                once(dt, s, v, via='subcomponent')
        res.dims['substitution strings v%s' % v] += res.states
    elif kind == 'maxlen':
        maxlen_unit(res)
    return res


def maxlen_unit(res):
    """STRICT: a value longer than the datatype's maximum length raises MaxLengthReached; at the limit it passes."""
    from hl7apy.factories import datatype_factory
    from hl7apy.exceptions import MaxLengthReached
    limits = {'ST': 199, 'FT': 65536, 'TX': 65536, 'IS': 20, 'GTS': 199, 'WD': 199, 'NM': 16, 'SI': 4, 'TN': 199, 'CM': 999}
    for v in VERSIONS:
        lib = libs()[v]
        for dt, cls in sorted(lib.BASE_DATATYPES.items()):
            if dt not in limits:
                continue
            lim = getattr(cls('1' if dt not in ('NM', 'SI') else None), 'max_length', None) if dt not in ('TN',) else 199
            if dt in ('NM', 'SI'):
                lim = limits[dt]
            if lim is None:
                continue
            for n, expect in ((lim, 'ok'), (lim + 1, 'raise')):
                s = ('1' * n) if dt != 'TN' else ('1' * n)
                res.evaluations += 1
                res.transitions += 2
                res.enumerated += 1
                res.states += 1
                point = {'dt': dt, 's': 'len%d' % n, 'v': v, 'via': 'maxlen'}
                try:
                    datatype_factory(dt, s, v, STRICT)
                    got = 'ok'
                except MaxLengthReached:
                    got = 'raise'
                except Exception as e:
                    got = exc_class(e)
                try:
                    t = datatype_factory(dt, s, v, TOLERANT).to_er7()
                except Exception as e:
                    t = exc_class(e)
                res.validated += 1
                if got != expect:
                    res.violation('%s|maxlength|%s-at-%s' % (dt, got, 'limit' if n == lim else 'limit+1'),
                                  'STRICT %s of %d characters (limit %d, v%s): %s' % (dt, n, lim, v, got), point, 1)
                if t != s:
                    res.violation('%s|maxlength|tolerant-text' % dt, 'TOLERANT %s of %d characters not preserved (%s)' % (dt, n, str(t)[:30]), point, 1)
                res.classes['%s/maxlength-%s' % (dt, got)] += 1


def run(tier, seed, extra):
    us = common.rotate(units(tier), seed)
    extra['bounds'] = {'years': 'boundary set of 10' if tier == 'quick' else 'all 1000-9999', 'numeric_string_len': 4 if tier == 'quick' else 5,
                       'numeric_alphabet': NUM_ALPHA, 'substitution_alphabet': SUBST}
    res = common.run_units(run_unit, us, tier)
    res.expected_size = res.enumerated
    return res


def replay(point, res):
    if point['via'] == 'util':
        check_util(res, point['dt'], point['s'])
    elif point['via'] == 'maxlen':
        maxlen_unit(res)
    else:
        check(res, point['dt'], point['s'], point['v'], point['via'])
