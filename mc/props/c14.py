"""C14 — name, long name, position and letter case all address the same child.

Engine E1.  Every field row x {HL7 name, long name} x {upper, lower, mixed case} x {get, set,
delete}; every component and subcomponent row from the field by named chain, long-name chain and
positional path (<seg>_<i>_<j>_<k>) in upper and lower case; negative names per parent (a child of
another parent, index one past the last, index 99, malformed paths).
Oracle: after a write through one spelling, the first element obtained through every other
spelling *is* the element written (identity) and encodes the written value; a delete through one
spelling empties the others; a name that designates no child raises ChildNotFound / ChildNotValid
and leaves the parent unchanged.
"""
from __future__ import annotations

from .. import common, tables, refmodel
from ..common import Result, VERSIONS, exc_class, libs

ID = 'C14'
ENGINE = 'E1 grid'
RULE = ('one case = (version, segment, child position, write spelling, read spelling, operation); distinct by '
        'construction; non-trivial = read spelling differs from the write spelling')
ASSUMPTIONS = [
    'long names duplicated within the parent or equal to an attribute / method name of the element class are excluded, as the statement says, and counted',
    'segments with anomalous table rows (C02 findings) are blocked and counted',
]


def mixed(s):
    return ''.join(ch.lower() if i % 2 else ch.upper() for i, ch in enumerate(s))


_RESERVED = {}


def reserved(clsname):
    if clsname not in _RESERVED:
        import hl7apy.core as core
        cls = getattr(core, clsname)
        names = set(n.upper() for n in dir(cls)) | set(n.upper() for n in getattr(cls, 'cls_attrs', ()))
        names |= {'LIST', 'TRAVERSAL_LIST', 'ELEMENT_LIST', 'ELEMENT_NAME'}
        _RESERVED[clsname] = names
    return _RESERVED[clsname]


def usable_long(rows, r, parent_cls):
    ln = r.long_name
    if not ln:
        return None
    if sum(1 for x in rows if x.long_name == ln) > 1:
        return 'dup'
    if ln.upper() in reserved(parent_cls) or ln.upper() in reserved('ElementProxy') if False else ln.upper() in reserved(parent_cls):
        return 'reserved'
    # a long name that is also the HL7 name of a sibling would be ambiguous
    if any(x.name == ln for x in rows):
        return 'dup'
    return ln


def first(e, spelling):
    p = getattr(e, spelling)
    return p


def seg_unit(v, seg, res, tier, only_leaf_children=False):
    from hl7apy.core import Segment
    from hl7apy.exceptions import ChildNotFound, ChildNotValid
    if tables.segment_anomaly(v, seg) or seg == 'ANYHL7SEGMENT' or tables.row_anomalies(v, seg):
        res.blocked['segment with anomalous rows (C02 findings)'] += 1
        return
    frows = [fr for i, fr in tables.field_rows(v, seg)]
    point = {'v': v, 'seg': seg}

    def new():
        s = Segment(seg, version=v)
        if seg == 'MSH':
            s.msh_1 = '|'
            s.msh_2 = '^~\\&'
        return s

    def viol(key, what):
        res.violation(key, what, point, 1)

    leaf_retyped = [only_leaf_children]
    for idx, fr in tables.field_rows(v, seg):
        if seg == 'MSH' and idx <= 2:
            continue
        lit = tables.literal(fr.datatype, v) if fr.kind == 'leaf' and tables.is_base(v, fr.datatype) else 'x'
        if only_leaf_children:
            if fr.kind == 'leaf' and tables.is_base(v, fr.datatype) and fr.card[1] != 0:
                leaf_field_child(res, v, seg, idx, fr, new, viol, lit)
            continue
        spell = [('name', fr.name), ('name-lower', fr.name.lower()), ('name-mixed', mixed(fr.name))]
        ln = usable_long(frows, fr, 'Segment')
        if ln in ('dup', 'reserved'):
            res.dims['field long names excluded (%s)' % ln] += 1
        elif ln:
            spell += [('long', ln), ('long-lower', ln.lower()), ('long-mixed', mixed(ln))]
        for wm, w in spell:
            res.evaluations += 1
            res.enumerated += 1
            res.states += 1
            try:
                s = new()
                setattr(s, w, lit)
                ref_el = getattr(s, fr.name)[0]
            except Exception as e:
                viol('%s|%s|%s|%s|set|%s' % (v, seg, fr.name, wm, exc_class(e)), 'setting %s.%s (v%s) through %r raises %s: %s' % (seg, fr.name, v, w, exc_class(e), e))
                continue
            for rm, r in spell:
                res.transitions += 1
                res.nontrivial += 1 if rm != wm else 0
                try:
                    p = getattr(s, r)
                    ok = len(p) == 1 and p[0] is ref_el and p[0].to_er7() == lit
                except Exception as e:
                    viol('%s|%s|%s|%s|get|%s' % (v, seg, fr.name, rm, exc_class(e)), 'reading %s.%s (v%s) through %r raises %s: %s' % (seg, fr.name, v, r, exc_class(e), e))
                    continue
                res.validated += 1
                if not ok:
                    viol('%s|%s|%s|%s>%s|get' % (v, seg, fr.name, wm, rm), '%s (v%s): written through %r, read through %r yields %r (not the element written / other value)'
                         % (seg, v, w, r, list(p)))
                else:
                    res.classes['same-child'] += 1
        # creation paths that take the name as typed: a datatype object assigned by long name, the add_field helper
        if ln and ln not in ('dup', 'reserved'):
            from hl7apy.factories import datatype_factory
            for how in ('datatype-object', 'add_field'):
                if how == 'datatype-object' and not (fr.kind == 'leaf' and tables.is_base(v, fr.datatype)):
                    continue
                for lm, lname in (('long', ln), ('long-lower', ln.lower())):
                    res.evaluations += 1
                    res.transitions += 2
                    try:
                        s = new()
                        n0 = len(s.children)
                        if how == 'datatype-object':
                            setattr(s, lname, datatype_factory(fr.datatype, lit, v))
                        else:
                            s.add_field(lname).value = lit
                        got = [c.name for c in s.children][n0:]
                        p = getattr(s, fr.name)
                        ok = got == [fr.name] and len(p) == 1 and p[0].to_er7() == lit
                    except Exception as e:
                        viol('%s|%s|%s|%s|%s|%s' % (v, seg, fr.name, how, lm, exc_class(e)), '%s.%s (v%s) created through %s with the name %r raises %s: %s'
                             % (seg, fr.name, v, how, lname, exc_class(e), e))
                        continue
                    res.validated += 1
                    if not ok:
                        viol('%s|%s|%s|%s|%s|wrong-child' % (v, seg, fr.name, how, lm), '%s (v%s): %s with the name %r created children %r' % (seg, v, how, lname, got))
                    else:
                        res.classes['same-child'] += 1
        for dm, d_ in spell:
            res.evaluations += 1
            res.transitions += 2
            try:
                s = new()
                setattr(s, fr.name, lit)
                delattr(s, d_)
                left = [len(getattr(s, r)) for _, r in spell]
            except Exception as e:
                viol('%s|%s|%s|%s|delete|%s' % (v, seg, fr.name, dm, exc_class(e)), 'deleting %s.%s (v%s) through %r raises %s: %s' % (seg, fr.name, v, d_, exc_class(e), e))
                continue
            res.validated += 1
            if any(left) or s.to_er7() not in (seg, 'MSH|^~\\&'):
                viol('%s|%s|%s|%s|delete' % (v, seg, fr.name, dm), '%s (v%s): after delete through %r other spellings still see %r, segment %r' % (seg, v, d_, left, s.to_er7()))
            else:
                res.classes['deleted-everywhere'] += 1
        # the only child of a field of a base datatype: named after the datatype, or by position <field>_1
        if fr.kind == 'leaf' and tables.is_base(v, fr.datatype) and fr.card[1] != 0:
            leaf_field_child(res, v, seg, idx, fr, new, viol, lit)
            if not leaf_retyped[0]:
                # once per segment: a base-datatype field given a complex datatype (TOLERANT allows it) is addressed like any
                # field of that datatype: by name, long name and position, and it encodes what was written
                leaf_retyped[0] = True
                retyped_leaf_field(res, v, seg, fr, viol)
        # components and subcomponents of this field
        if fr.kind != 'leaf':
            comp_paths(res, v, seg, idx, fr, new, viol)
            sibling_prefix_negatives(res, v, seg, idx, fr, new, viol)
            retyped_field(res, v, seg, idx, fr, new, viol)
    if only_leaf_children:
        res.dims['segments (children of base-datatype fields only)'] += 1
        return
    # negative names
    negatives(res, v, seg, new, viol)
    res.dims['segments'] += 1


def leaf_field_child(res, v, seg, idx, fr, new, viol, lit):
    dt = fr.datatype
    pos = '%s_1' % fr.name
    spell = [('datatype', dt), ('datatype-lower', dt.lower()), ('datatype-mixed', mixed(dt)), ('positional', pos), ('positional-lower', pos.lower())]
    if len(dt) < 2:
        spell = [x for x in spell if x[0] != 'datatype-mixed']
    for wm, w in spell:
        res.evaluations += 1
        res.enumerated += 1
        res.states += 1
        try:
            s = new()
            setattr(getattr(s, fr.name.lower()), w, lit)        # through the segment: the field does not exist yet
            f = getattr(s, fr.name)[0]
            ref_el = f.children[0]
        except Exception as e:
            viol('%s|%s|%s|leaf-child|%s|set|%s' % (v, seg, dt, wm, exc_class(e)), 'setting the %s child of %s (v%s) through %r raises %s: %s'
                 % (dt, fr.name, v, w, exc_class(e), e))
            continue
        for rm, r in spell:
            res.transitions += 1
            res.nontrivial += 1 if rm != wm else 0
            try:
                p = getattr(f, r)
                ok = len(p) == 1 and p[0] is ref_el and p[0].to_er7() == lit and len(f.children) == 1
            except Exception as e:
                viol('%s|%s|%s|leaf-child|%s|get|%s' % (v, seg, dt, rm, exc_class(e)), 'reading the %s child of %s (v%s) through %r raises %s: %s'
                     % (dt, fr.name, v, r, exc_class(e), e))
                continue
            res.validated += 1
            if not ok:
                viol('%s|%s|%s|leaf-child|%s>%s|get' % (v, seg, dt, wm, rm), '%s (v%s): child written through %r, read through %r yields %r' % (fr.name, v, w, r, list(p)))
            else:
                res.classes['same-child'] += 1
        res.transitions += 1
        try:
            delattr(f, spell[(spell.index((wm, w)) + 1) % len(spell)][1])
            if len(f.children) or f.to_er7() != '':
                viol('%s|%s|%s|leaf-child|%s|delete' % (v, seg, dt, wm), '%s (v%s): after deleting its only child the field still encodes %r' % (fr.name, v, f.to_er7()))
        except Exception as e:
            viol('%s|%s|%s|leaf-child|delete|%s' % (v, seg, dt, exc_class(e)), 'deleting the %s child of %s (v%s) raises %s: %s' % (dt, fr.name, v, exc_class(e), e))


def retyped_leaf_field(res, v, seg, fr, viol):
    from hl7apy.core import Field
    structs = libs()[v].DATATYPES_STRUCTS
    cands = [d for d in ('CE', 'CX', 'HD', 'CQ') if d in structs and tables.datatype_rows(v, d)[0].kind == 'leaf'
             and tables.is_base(v, tables.datatype_rows(v, d)[0].datatype)]
    if not cands:
        return
    ndt = cands[0]
    row0 = tables.datatype_rows(v, ndt)[0]
    lit = tables.literal(row0.datatype, v)
    res.evaluations += 1
    res.enumerated += 1
    res.states += 1
    res.transitions += 4
    res.nontrivial += 1
    try:
        f = Field(fr.name, datatype=ndt, version=v)
        setattr(f, '%s_1' % fr.name.lower(), lit)
        named = getattr(f, '%s_1' % ndt)
        ok = len(named) == 1 and named[0] is f.children[0] and f.to_er7() == lit
        ln0 = row0.long_name
        if ok and ln0 and [r_.long_name for r_ in tables.datatype_rows(v, ndt)].count(ln0) == 1 and ln0.upper() not in reserved('Field'):
            ok = getattr(f, ln0.lower())[0] is named[0]
    except Exception as x:
        viol('retyped-leaf-field|%s' % exc_class(x), '%s (v%s): %s of base datatype %s created with datatype %s, %s_1 written: %s: %s'
             % (seg, v, fr.name, fr.datatype, ndt, fr.name, exc_class(x), x))
        return
    res.validated += 1
    if not ok:
        viol('retyped-leaf-field|mismatch', '%s (v%s): %s of base datatype %s created with datatype %s: name, long name and position do not designate '
             'one child, or the field encodes %r instead of %r' % (seg, v, fr.name, fr.datatype, ndt, f.to_er7(), lit))
    else:
        res.classes['retyped-same-child'] += 1


def comp_paths(res, v, seg, idx, fr, new, viol):
    crows = fr.children
    for cr in crows:
        j = tables.comp_index(cr.name)
        subs = cr.children if cr.kind != 'leaf' else [None]
        cl = usable_long(crows, cr, 'Field')
        for sr in subs:
            k = tables.comp_index(sr.name) if sr is not None else None
            leaf = sr if sr is not None else cr
            lit = tables.literal(leaf.datatype, v) if tables.is_base(v, leaf.datatype) else 'x'
            pos = '%s_%d%s' % (fr.name, j, '_%d' % k if k else '')
            modes = [('named', (cr.name,) + ((sr.name,) if sr is not None else ())),
                     ('named-lower', (cr.name.lower(),) + ((sr.name.lower(),) if sr is not None else ())),
                     ('positional', (pos,)), ('positional-lower', (pos.lower(),))]
            if cl not in (None, 'dup', 'reserved'):
                if sr is None:
                    modes.append(('long', (cl.lower(),)))
                else:
                    sl = usable_long(cr.children, sr, 'Component')
                    if sl not in (None, 'dup', 'reserved'):
                        modes.append(('long', (cl.lower(), sl.lower())))
                    else:
                        res.dims['subcomponent long names excluded'] += 1
            elif cl in ('dup', 'reserved'):
                res.dims['component long names excluded (%s)' % cl] += 1
            where = '%s.%d%s' % (fr.name, j, '.%d' % k if k else '')
            for wm, wpath in modes:
                res.evaluations += 1
                res.enumerated += 1
                res.states += 1
                try:
                    s = new()
                    f = getattr(s, fr.name)
                    e = f
                    for a in wpath[:-1]:
                        e = getattr(e, a)
                    setattr(e, wpath[-1], lit)
                    # the element written, via the canonical named chain
                    c = getattr(getattr(s, fr.name), cr.name)
                    ref_el = (getattr(c, sr.name) if sr is not None else c)[0]
                except Exception as x:
                    viol('%s|%s|%s|%s|set|%s' % (v, seg, where, wm, exc_class(x)), 'setting %s %s (v%s) through %r raises %s: %s' % (seg, where, v, wpath, exc_class(x), x))
                    continue
                for rm, rpath in modes:
                    res.transitions += 1
                    res.nontrivial += 1 if rm != wm else 0
                    try:
                        e = getattr(s, fr.name)
                        for a in rpath:
                            e = getattr(e, a)
                        ok = len(e) == 1 and e[0] is ref_el and e[0].to_er7() == lit
                    except Exception as x:
                        viol('%s|%s|%s|%s|get|%s' % (v, seg, where, rm, exc_class(x)), 'reading %s %s (v%s) through %r raises %s: %s' % (seg, where, v, rpath, exc_class(x), x))
                        continue
                    res.validated += 1
                    if not ok:
                        viol('%s|%s|%s|%s>%s|get' % (v, seg, where, wm, rm), '%s %s (v%s): written through %r, read through %r yields %r' % (seg, where, v, wpath, rpath, list(e)))
                    else:
                        res.classes['same-child'] += 1
            for dm, dpath in modes[::2]:
                res.evaluations += 1
                res.transitions += 2
                try:
                    s = new()
                    c = getattr(getattr(s, fr.name), cr.name)
                    if sr is not None:
                        setattr(c, sr.name, lit)
                    else:
                        setattr(getattr(s, fr.name), cr.name, lit)
                    e = getattr(s, fr.name)
                    for a in dpath[:-1]:
                        e = getattr(e, a)
                    delattr(e, dpath[-1])
                    c = getattr(getattr(s, fr.name), cr.name)
                    left = len(getattr(c, sr.name)) if sr is not None else len(c)
                except Exception as x:
                    viol('%s|%s|%s|%s|delete|%s' % (v, seg, where, dm, exc_class(x)), 'deleting %s %s (v%s) through %r raises %s: %s' % (seg, where, v, dpath, exc_class(x), x))
                    continue
                res.validated += 1
                if left:
                    viol('%s|%s|%s|%s|delete' % (v, seg, where, dm), '%s %s (v%s): still present after delete through %r' % (seg, where, v, dpath))
                else:
                    res.classes['deleted-everywhere'] += 1


def sibling_prefix_negatives(res, v, seg, idx, fr, new, viol):
    """the positional path of a sibling field whose number merely starts with this field's number designates no child"""
    from hl7apy.exceptions import ChildNotFound, ChildNotValid
    for n in ('%s_%d0_1' % (seg, idx), '%s_%d1_1' % (seg, idx), '%s_%d0_1_1' % (seg, idx), ('%s_%d0_1' % (seg, idx)).lower()):
        for op in ('get', 'set', 'delete'):
            res.evaluations += 1
            res.enumerated += 1
            res.states += 1
            res.transitions += 1
            s = new()
            lit = 'x'
            try:
                setattr(getattr(s, fr.name), fr.children[0].name, 'x' if fr.children[0].kind != 'leaf' or not tables.is_base(v, fr.children[0].datatype)
                        else tables.literal(fr.children[0].datatype, v))
                before = s.to_er7()
                f = getattr(s, fr.name)
                if op == 'get':
                    r = getattr(f, n)
                    len(r)
                    got = 'returned %r' % (list(r),)
                elif op == 'set':
                    setattr(f, n, 'y')
                    got = 'accepted'
                else:
                    delattr(f, n)
                    got = 'accepted'
            except (ChildNotFound, ChildNotValid):
                got = None
            except Exception as x:
                got = 'raised %s' % exc_class(x)
            res.validated += 1
            if got is not None:
                viol('%s|%s|negative-sibling-path|%s' % (v, seg, op), '%s (v%s): %s of %r on field %s, which is the path of another field, %s'
                     % (seg, v, op, n, fr.name, got))
            elif s.to_er7() != before:
                viol('%s|%s|negative-changed|sibling-path-%s' % (v, seg, op), '%s (v%s): refused %s of %r changed the segment' % (seg, v, op, n))
            else:
                res.classes['negative-refused'] += 1


def retyped_field(res, v, seg, idx, fr, new, viol):
    """positional paths follow the field's *current* datatype: read a path, change the datatype of the (still empty)
    field, use the same path again"""
    structs = libs()[v].DATATYPES_STRUCTS
    cands = [d for d in ('CE', 'XPN', 'CX', 'HD', 'CQ') if d in structs and d != fr.datatype and tables.datatype_rows(v, d)[0].kind == 'leaf'
             and tables.is_base(v, tables.datatype_rows(v, d)[0].datatype)]
    if not cands:
        return
    new_dt = cands[0]
    pos = '%s_1' % fr.name
    res.evaluations += 1
    res.enumerated += 1
    res.states += 1
    res.transitions += 4
    res.nontrivial += 1
    try:
        s = new()
        f = s.add_field(fr.name)
        len(getattr(f, pos.lower()))                 # positional read under the declared datatype
        f.datatype = new_dt                          # TOLERANT, no children yet
        lit = tables.literal(tables.datatype_rows(v, new_dt)[0].datatype, v)
        setattr(f, pos.lower(), lit)                 # the same path again
        named = getattr(f, '%s_1' % new_dt)
        posd = getattr(f, pos)
        ok = len(named) == 1 and len(posd) == 1 and named[0] is posd[0] and named[0].to_er7() == lit
        # the long names follow the current datatype too (same datatype given to the constructor, and assigned)
        from hl7apy.core import Field
        row0 = tables.datatype_rows(v, new_dt)[0]
        ln0 = row0.long_name
        names_now = [r_.long_name for r_ in tables.datatype_rows(v, new_dt)]
        if ok and ln0 and names_now.count(ln0) == 1 and ln0.upper() not in reserved('Field'):
            for f2 in (f, Field(fr.name, datatype=new_dt, version=v)):
                if f2 is not f:
                    setattr(f2, '%s_1' % new_dt, lit)
                by_long = getattr(f2, ln0.lower())
                if not (len(by_long) == 1 and by_long[0] is getattr(f2, '%s_1' % new_dt)[0]):
                    ok = False
                setattr(f2, ln0.lower(), lit)
                if [c.name for c in f2.children] != ['%s_1' % new_dt] or f2.to_er7() != lit:
                    ok = False
    except Exception as x:
        viol('%s|%s|retyped|%s' % (v, seg, exc_class(x)), '%s (v%s): %s read positionally, retyped %s->%s, then %s written: %s: %s'
             % (seg, v, fr.name, fr.datatype, new_dt, pos, exc_class(x), x))
        return
    res.validated += 1
    if not ok:
        viol('%s|%s|retyped|mismatch' % (v, seg), '%s (v%s): after retyping %s to %s the path %s and the name %s_1 designate different children'
             % (seg, v, fr.name, new_dt, pos, new_dt))
    else:
        res.classes['retyped-same-child'] += 1


def negatives(res, v, seg, new, viol):
    from hl7apy.exceptions import ChildNotFound, ChildNotValid
    rows = [(i, fr) for i, fr in tables.field_rows(v, seg)]
    last = max(i for i, fr in rows)
    open_ended = rows[-1][1].datatype == 'varies'
    other = 'NK1_1' if seg != 'NK1' else 'PID_1'
    names = [other, other.lower(), '%s_99' % seg if not open_ended else None, '%s_%d' % (seg, last + 1) if not open_ended else None,
             '%s_0' % seg if False else None, '%s_x' % seg, '%s__1' % seg, 'QQQ_1', 'no_such_long_name']
    for n in [x for x in names if x]:
        for op in ('get', 'set', 'delete'):
            res.evaluations += 1
            res.enumerated += 1
            res.states += 1
            res.transitions += 1
            s = new()
            first_field = [fr for i, fr in rows if not (seg == 'MSH' and i <= 2)]
            if first_field:
                setattr(s, first_field[0].name, tables.literal(first_field[0].datatype, v) if first_field[0].kind == 'leaf' and tables.is_base(v, first_field[0].datatype) else 'x')
            before = (s.to_er7(), len(s.children))
            try:
                if op == 'get':
                    r = getattr(s, n)
                    len(r)
                    got = 'returned %r' % (r,)
                elif op == 'set':
                    setattr(s, n, 'x')
                    got = 'accepted'
                else:
                    delattr(s, n)
                    got = 'accepted'
            except (ChildNotFound, ChildNotValid):
                got = None
            except Exception as x:
                got = 'raised %s' % exc_class(x)
            res.validated += 1
            after = (s.to_er7(), len(s.children))
            if got is not None:
                viol('%s|%s|negative|%s|%s' % (v, seg, n if n in (other, other.lower()) else n.replace(seg, 'SEG'), op),
                     '%s (v%s): %s of the name %r, which designates no child, %s' % (seg, v, op, n, got))
            elif before != after:
                viol('%s|%s|negative-changed|%s' % (v, seg, op), '%s (v%s): refused %s of %r changed the segment %r -> %r' % (seg, v, op, n, before, after))
            else:
                res.classes['negative-refused'] += 1
    # negative component paths on the first complex field
    for i, fr in rows:
        if fr.kind != 'leaf' and not (seg == 'MSH' and i <= 2):
            nc = max(tables.comp_index(c.name) for c in fr.children)
            for n in ('%s_%d' % (fr.name, nc + 1), '%s_99' % fr.name, '%s_1_99' % fr.name, '%s_x' % fr.name, '%s_1_1_1' % fr.name,
                      'ZZ_1', '%s_%d' % ('XPN' if fr.datatype != 'XPN' else 'CX', 1),
                      '%s_0' % fr.name, '%s_-1' % fr.name, ('%s_0' % fr.name).lower(), '%s_1_0' % fr.name, '%s_%d_0' % (fr.name, nc), '%s_1_-1' % fr.name):
                for op in ('get', 'set'):
                    res.evaluations += 1
                    res.enumerated += 1
                    res.states += 1
                    res.transitions += 1
                    s = new()
                    f = getattr(s, fr.name)
                    try:
                        if op == 'get':
                            r = getattr(f, n)
                            len(r)
                            got = 'returned %r' % (r,)
                        else:
                            setattr(f, n, 'x')
                            got = 'accepted'
                    except (ChildNotFound, ChildNotValid):
                        got = None
                    except Exception as x:
                        got = 'raised %s' % exc_class(x)
                    res.validated += 1
                    if got is not None and not (n.endswith('_1_99') and False):
                        viol('%s|%s|negative-component|%s|%s' % (v, seg, n.replace(fr.name, 'FIELD'), op),
                             '%s (v%s): %s of %r on field %s, which designates no child, %s' % (seg, v, op, n, fr.name, got))
                    elif got is None and s.to_er7() not in (seg, 'MSH|^~\\&'):
                        viol('%s|%s|negative-changed|component-%s' % (v, seg, op), '%s (v%s): refused %s of %r changed the segment to %r' % (seg, v, op, n, s.to_er7()))
                    else:
                        res.classes['negative-refused'] += 1
            break


def units(tier):
    us = []
    for v in VERSIONS:
        segs = tables.segment_names(v)
        if tier == 'quick' and v not in ('2.5', '2.7'):
            segs = segs[::3]
        for s in segs:
            us.append((v, s))
        if tier == 'quick' and v not in ('2.5', '2.7'):
            # the check of the children of base-datatype fields is cheap: every segment of every version
            rest = [s for s in tables.segment_names(v) if s not in segs]
            for i in range(0, len(rest), 25):
                us.append((v, tuple(rest[i:i + 25]), 'leaf-children'))
    return us


def run_unit(unit, tier):
    res = Result()
    if len(unit) == 3:
        for seg in unit[1]:
            seg_unit(unit[0], seg, res, tier, only_leaf_children=True)
    else:
        seg_unit(unit[0], unit[1], res, tier)
    res.expected_size = res.enumerated
    return res


def run(tier, seed, extra):
    us = common.rotate(units(tier), seed)
    extra['bounds'] = {'segments': 'all segments of 2.5 and 2.7, every third segment of the other versions' if tier == 'quick' else 'all segments of all versions',
                       'spellings': ['name', 'name-lower', 'name-mixed', 'long', 'long-lower', 'long-mixed', 'named chain', 'positional path']}
    return common.run_units(run_unit, us, tier)


def replay(point, res):
    seg_unit(point['v'], point['seg'], res, 'thorough')
