"""C15 — bad input fails with the library's exceptions, never with a crash.

Engine E1.  One valid message per version (plus the 5-character header form from 2.7) and, each
enumerated completely: truncation at every byte, deletion and duplication of every delimiter
occurrence, every MSH-2 of length 0-6 x header field count 2-13, MSH-9 / MSH-12 absent / empty /
unknown / malformed, every segment id replaced by {unknown, 2-letter, lower case, digits, blank
line}, and all strings up to length 4 (5) over a 13-symbol alphabet after three prefixes; both
validation levels; parse_message and get_message_type; for every message returned, to_er7() and
validate(return_errors=True).
"""
from __future__ import annotations

import itertools
import traceback

from .. import common
from ..common import Result, VERSIONS, STRICT, TOLERANT, is_lib_exc, exc_class

ID = 'C15'
ENGINE = 'E1 grid'
RULE = ('one case = (input string, validation level, entry point); inputs are distinct mutations / strings by construction '
        '(duplicates removed); non-trivial = the input is not one of the valid seed messages')
ASSUMPTIONS = [
    'mutations of one seed message per version; junk strings up to length 4 (5) over {M S H | ^ ~ \\ & CR 2 . 5 A blank sharp-s}',
    'accepted outcomes: a value, an HL7apyException subclass, or (STRICT only) ValueError raised for a value invalid for its datatype',
]

SEED = ('MSH|^~\\&|SA|SF|RA|RF|20200229123000||ADT^A01^ADT_A01|ID1|P|{v}\r'
        'EVN||20200229\rPID|1||I1^^^AA&1.2&ISO~I2||FAM^GIV||19800101|M\rNK1|1|N^K\rPV1|1|I|W^R^B\r'
        'OBX|1|CE|C^T||120^^mmHg~^80|u')
# OBX-5 is of type varies: its components (with empty ones in front of valued ones) follow another path in parser and encoder


def seed(v):
    s = SEED.format(v=v)
    if v < '2.4':
        s = s.replace('ADT^A01^ADT_A01', 'ADT^A01')
    return s


# a second seed with nested and sibling groups (patient > visit, order > observation / specimen): unknown and misplaced
# segments inside a group, followed by segments of the same group, of a sub-group, of a sibling group, of the root
SEED2 = ('MSH|^~\\&|SA|SF|RA|RF|20200229123000||ORU^R01^ORU_R01|ID2|P|{v}\r'
         'PID|1||I1\rNTE|1\rPV1|1|I\rORC|RE\rOBR|1\rNTE|2\rOBX|1|ST|C||v\rNTE|3\rOBR|2\rOBX|1|ST|C||w\rDSC|1')


def seed2(v):
    s = SEED2.format(v=v)
    if v < '2.4':
        s = s.replace('ORU^R01^ORU_R01', 'ORU^R01')
    return s


def mutations2(v):
    s = seed2(v)
    yield 'seed2', s
    lines = s.split('\r')
    for li in range(1, len(lines)):
        for rep in ('ZZZ', 'QQQ', 'EVN', 'MSA', 'PID', 'OBX', 'NTE', 'SPM'):
            ls = list(lines)
            ls[li] = rep + ls[li][3:]
            yield 'segment-id-2', '\r'.join(ls)
    for li in range(1, len(lines) + 1):
        for ins in ('ZZZ|1', 'PV1|1', 'NTE|9', 'OBX|2', 'PID|2', 'ORC|NW'):
            ls = list(lines)
            ls.insert(li, ins)
            yield 'insert-2', '\r'.join(ls)
            ls.insert(li + 1, ins.replace('1', '3'))
            yield 'insert-2-twice', '\r'.join(ls)
    for li in range(1, len(lines)):
        ls = list(lines)
        del ls[li]
        yield 'delete-2', '\r'.join(ls)
        for lj in range(li + 1, len(lines)):
            ls = list(lines)
            ls[li], ls[lj] = ls[lj], ls[li]
            yield 'swap-2', '\r'.join(ls)


def order_texts(v):
    """texts whose handling could leave something behind for the next one (delimiter sets that differ in one character,
    values that contain the other text's delimiters)"""
    base = seed(v).replace('FAM^GIV', 'FAM #4^GIV \\T\\ $')
    t = {'std4': base, 'custom': base.replace('|', '!').replace('^', '$').replace('~', '*').replace('\\', '@').replace('&', '%').replace('MSH!$*@%', 'MSH!$*@%')}
    if v >= '2.7':
        t['std5'] = base.replace('MSH|^~\\&|', 'MSH|^~\\&#|')
        t['std5-other'] = base.replace('MSH|^~\\&|', 'MSH|^~\\&$|')
    return t


def innermost_lib_frame(e):
    tb = traceback.extract_tb(e.__traceback__)
    for fr in reversed(tb):
        if '/hl7apy/' in fr.filename:
            return '%s:%s' % (fr.filename.split('/hl7apy/')[-1], fr.name)
    return 'outside-library'


def acceptable(e, level):
    if is_lib_exc(e):
        return True
    if level == STRICT and isinstance(e, ValueError):
        return True
    return False


def try_input(res, text, level, tag):
    from hl7apy.parser import parse_message, get_message_type
    lvl = 'STRICT' if level == STRICT else 'TOLERANT'
    for entry in ('get_message_type', 'parse_message'):
        if entry == 'get_message_type' and level == STRICT:
            continue
        res.evaluations += 1
        res.transitions += 1
        point = {'text': text, 'level': level}
        try:
            if entry == 'get_message_type':
                get_message_type(text)
                res.classes['get_message_type:value'] += 1
                continue
            m = parse_message(text, validation_level=level)
        except Exception as e:
            if acceptable(e, level):
                res.classes['%s:%s' % (entry, exc_class(e))] += 1
            else:
                res.violation('%s|%s|%s' % (exc_class(e), innermost_lib_frame(e), entry),
                              '%s(%r, %s) raises %s: %s [%s]' % (entry, text[:120], lvl, exc_class(e), e, tag), point, len(text))
            continue
        res.classes['parse_message:value'] += 1
        res.validated += 1
        # a parsed message encodes and validates without crashing
        for what in ('to_er7', 'validate'):
            res.transitions += 1
            try:
                if what == 'to_er7':
                    m.to_er7()
                else:
                    r = m.validate(return_errors=True)
                    if not (hasattr(r, 'is_valid') and hasattr(r, 'errors')):
                        res.violation('validate-no-report|%s' % lvl, 'validate(return_errors=True) returned %r' % (r,), point, len(text))
            except Exception as e:
                res.violation('%s|%s|%s-after-parse' % (exc_class(e), innermost_lib_frame(e), what),
                              '%s() of the message parsed from %r (%s) raises %s: %s [%s]' % (what, text[:120], lvl, exc_class(e), e, tag),
                              point, len(text))


def mutations(v):
    """yield (tag, text), each family enumerated completely"""
    s = seed(v)
    yield 'seed', s
    if v >= '2.7':
        yield 'seed-5char', s.replace('MSH|^~\\&|', 'MSH|^~\\&#|')
    for i in range(len(s)):
        yield 'truncate', s[:i]
    delims = '|^~\\&\r'
    for i, ch in enumerate(s):
        if ch in delims:
            yield 'delete-delim', s[:i] + s[i + 1:]
            yield 'dup-delim', s[:i] + ch + s[i:]
    # MSH-2 of every length 0..6 x header field count 2..13
    full = '^~\\&#$'
    header_fields = ['SA', 'SF', 'RA', 'RF', '20200229123000', '', 'ADT^A01^ADT_A01', 'ID1', 'P', v, 'x']
    for n in range(0, 7):
        for cnt in range(2, 14):
            fields = ['MSH', full[:n]] + header_fields[:max(0, cnt - 2)]
            yield 'msh2-len-x-fieldcount', '|'.join(fields) + '\rPID|1'
    # MSH-9 / MSH-12 variants
    for m9 in ('', 'ADT', 'ADT^A01', 'ADT^A01^ADT_A01', 'XXX^Y01^XXX_Y01', '^^', 'ADT^A01^', '^A01', 'ADT_A01', 'ZZZ^Z01^ZZZ_Z01', 'ACK',
               'adt^a01^adt_a01', 'ADT&A01', 'ADT^A01^ADT_A01^EXTRA', '~'):
        for m12 in (v, '', '2', '2.9', '9.9', v + '^ITA', '^', 'x.y', ' ' + v, v + ' '):
            yield 'msh9-msh12', 'MSH|^~\\&|A|B|C|D|20200229||%s|1|P|%s\rPID|1||X' % (m9, m12)
    yield 'no-msh12', 'MSH|^~\\&|A|B|C|D|20200229||ADT^A01^ADT_A01|1|P\rPID|1'
    yield 'no-msh9', 'MSH|^~\\&|A|B|C|D|20200229'
    # every segment id replaced
    lines = s.split('\r')
    for li in range(len(lines)):
        for rep in ('QQQ', 'PI', 'pid', '123', '', 'ZZZ', 'MSH', 'P|D', '|||'):
            ls = list(lines)
            ls[li] = rep + ls[li][3:] if rep != '' else ''
            yield 'segment-id', '\r'.join(ls)
    # every segment name the version defines, in the place of every segment of the seed (withdrawn segments, segments with
    # odd table rows, batch / file headers ...), and Z names that change length in upper case
    for li in range(1, len(lines)):
        for rep in sorted(common.libs()[v].SEGMENTS) + ['Z\xdfA', 'z\xdf1', 'Z_A', 'Z__']:
            if len(rep) != 3:
                continue
            ls = list(lines)
            ls[li] = rep + ls[li][3:]
            yield 'segment-id-any', '\r'.join(ls)
    for li in range(len(lines) + 1):
        ls = list(lines)
        ls.insert(li, '')
        yield 'blank-line', '\r'.join(ls)
        ls = list(lines)
        ls.insert(li, '   ')
        yield 'blank-line', '\r'.join(ls)
    yield 'crlf', s.replace('\r', '\r\n')
    yield 'lf', s.replace('\r', '\n')
    yield 'leading-space', '  ' + s
    yield 'trailing-cr', s + '\r\r'


JUNK = 'MSH|^~\\&\r2.5A \xdf'


def junk_strings(n):
    for ln in range(0, n + 1):
        for t in itertools.product(JUNK, repeat=ln):
            yield ''.join(t)


def allseg_texts(v):
    """one message per segment of the version: the segment with every leaf valued (typed literal), inside a message whose
    structure lists it - every row of the tables goes through parse, to_er7 and validate once"""
    from . import c01
    from .. import tables, refmodel
    ec = refmodel.default_ec(v)
    ec.pop('TRUNCATION', None)
    for seg in tables.segment_names(v):
        if seg == 'MSH' or tables.segment_anomaly(v, seg):
            continue
        host = c01.host_structure(v, seg)
        if host is None:
            continue
        rows = c01.usable_rows(v, seg)
        allf = {idx: [c01.field_all_leaves(v, fr)] for idx, fr in rows}
        yield 'all-leaves:' + seg, refmodel.enc_message([('MSH', c01.msh_fields(v, host)), (seg, allf)], ec)


def units(tier):
    us = [('mut', v) for v in VERSIONS]
    us += [('allseg', v) for v in VERSIONS]
    us += [('mut2', v) for v in VERSIONS]
    for v in ('2.5', '2.7', '2.8.2') if tier == 'quick' else VERSIONS:
        names = sorted(order_texts(v))
        us += [('order', v, a, b) for a in names for b in names if a != b]
    n = 4 if tier == 'quick' else 5
    for pi in range(3):
        for first in range(len(JUNK)):
            us.append(('junk', pi, first, n))
    return us


PREFIXES = ['', 'MSH', 'MSH|^~\\&|']


def run_unit(unit, tier):
    res = Result()
    seen = set()
    if unit[0] == 'order':
        # two texts one after the other in a fresh process, at both levels: the second is judged like any other input
        _, v, a, b = unit
        t = order_texts(v)
        for level in (TOLERANT, STRICT):
            try_input(res, t[a], level, 'order:first=%s' % a)
            try_input(res, t[b], level, 'order:%s-after-%s' % (b, a))
        res.states += 2
        res.enumerated += 2
        res.nontrivial += 2
        res.dims['ordered pairs of texts'] += 1
    elif unit[0] == 'allseg':
        v = unit[1]
        for tag, text in allseg_texts(v):
            res.states += 1
            res.enumerated += 1
            res.nontrivial += 1
            try_input(res, text, TOLERANT, tag)
        res.dims['all-leaves messages'] += 1
    elif unit[0] in ('mut', 'mut2'):
        v = unit[1]
        if unit[0] == 'mut2' and 'ORU_R01' not in common.libs()[v].MESSAGES:
            res.dims['versions without ORU_R01'] += 1
        for tag, text in (mutations(v) if unit[0] == 'mut' else mutations2(v) if 'ORU_R01' in common.libs()[v].MESSAGES else ()):
            if text in seen:
                continue
            seen.add(text)
            res.states += 1
            res.enumerated += 1
            if tag not in ('seed', 'seed2'):
                res.nontrivial += 1
            for level in (TOLERANT, STRICT):
                try_input(res, text, level, tag)
            res.dims['mutation:' + tag] += 1
        res.sample({'v': v, 'seed': seed(v)}, cap=2)
    else:
        _, pi, first, n = unit
        pre = PREFIXES[pi]
        if first == 0:
            for level in (TOLERANT, STRICT):
                try_input(res, pre, level, 'junk')
            res.states += 1
            res.enumerated += 1
        for ln in range(0, n):
            for t in itertools.product(JUNK, repeat=ln):
                text = pre + JUNK[first] + ''.join(t)
                res.states += 1
                res.enumerated += 1
                res.nontrivial += 1
                for level in (TOLERANT, STRICT):
                    try_input(res, text, level, 'junk')
        res.dims['junk prefix %r' % pre] += 1
    res.expected_size = res.enumerated
    return res


def run(tier, seed_, extra):
    us = common.rotate(units(tier), seed_)
    extra['bounds'] = {'junk_len': 4 if tier == 'quick' else 5, 'junk_alphabet': JUNK, 'prefixes': PREFIXES}
    return common.run_units(run_unit, us, tier)


def replay(point, res):
    try_input(res, point['text'], point['level'], 'replay')
