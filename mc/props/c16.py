"""C16 — MLLP: one framed request in, exactly one correctly routed reply out.

Engine E3 (environment answers + thread schedules) and E1.  The real MLLPRequestHandler is run by the
real MLLPServer.process_request_thread of a bound-but-never-served server object over a scripted
in-memory socket (mc/fakesock.py).
  framing      to_mllp() of a message recipe for every version; the frame fed back to the handler.
  single conn  payload kinds x every prefix length of the frame (client stall / early close at every byte)
               x every composition of the prefix into <= 3 (thorough 4) arrivals x {timeout, EOF} x
               {ERR handler registered, not registered}.
  several conn 2 (3) connections with distinct payloads, handlers run as threads under the baton scheduler,
               choice point before every library line and every socket operation; preemption bound 2 (1).
  conformance  one case per distinct outcome class replayed over a real loopback TCP connection.
Oracle: a 40-line MLLP reference (frame grammar + routing table), independent of hl7apy.
"""
from __future__ import annotations

import itertools
import re
import socket
import sys
import threading
import time

from .. import common, sched, refmodel
from ..common import Result, VERSIONS, HarnessError, exc_class
from ..fakesock import FakeSocket, compositions, cut, n_compositions

ID = 'C16'
ENGINE = 'E3 sched'
RULE = ('one case = one connection script (payload kind, prefix length, chunking, stall/close, server configuration) or '
        'one complete schedule of a multi-connection harness; distinct by construction; non-trivial = the script cuts '
        'the frame in more than one arrival or ends before the frame does, or the schedule has a preemption')
ASSUMPTIONS = [
    'socket model: a read returns at most what has arrived and never crosses an arrival boundary; after the script the '
    'peer stalls (timeout) or has closed (EOF); validated against real loopback TCP for one case per outcome class',
    'frames of 20-40 bytes; at most 3 (4) arrivals; at most 3 simultaneous connections; preemption bound 2 (1 for 3 connections)',
    'whether the text handed to a handler keeps the final carriage return is unspecified',
    'payloads with blank lines or malformed MSH-2 are outside the statement: only "at most one handler, then closed" is required',
]

SB, EB, CR = b'\x0b', b'\x1c', b'\x0d'

LOG = []          # handler construction / reply log of the current execution


class HandlerA(object):
    tag = 'A'

    def __init__(self, msg, *args):
        self.msg = msg
        LOG.append(('new', self.tag, msg, args))

    def reply(self):
        LOG.append(('reply', self.tag, self.msg))
        return 'ACK-%s[%s]' % (self.tag, ctl_id(self.msg))


class HandlerB(HandlerA):
    tag = 'B'


class HandlerE(object):
    def __init__(self, exc, msg, *args):
        self.exc, self.msg = exc, msg
        LOG.append(('new', 'ERR:' + type(exc).__name__, msg, args))

    def reply(self):
        LOG.append(('reply', 'ERR', self.msg))
        return 'NAK-%s[%s]' % (type(self.exc).__name__, ctl_id(self.msg))


def ctl_id(msg):
    f = msg.split('|')
    return f[9].split('\r')[0].strip() if len(f) > 9 else msg[:5]


def handlers(with_err):
    h = {'AAA^A01': (HandlerA,), 'BBB^B01^BBB_B01': (HandlerB, 'extra')}
    if with_err:
        h['ERR'] = (HandlerE,)
    return h


_SERVERS = {}


def server(with_err):
    from hl7apy.mllp import MLLPServer
    if with_err not in _SERVERS:
        s = MLLPServer('127.0.0.1', 0, handlers(with_err), timeout=5)
        s.errors = []
        s.handle_error = lambda request, addr: s.errors.append(sys.exc_info()[1])
        _SERVERS[with_err] = s
    return _SERVERS[with_err]


# ----------------------------------------------------------------------------------- payloads

def P(kind, n='1'):
    return {
        'registered-A': 'MSH|^~\\&|||||||AAA^A01|%s|P|2.5' % n,
        'registered-B': 'MSH|^~\\&|||||||BBB^B01^BBB_B01|%s|P|2.5\rZ1A|x' % n,
        'unregistered': 'MSH|^~\\&|||||||CCC^C01|%s|P|2.5' % n,
        'non-hl7': 'HELLO WORLD %s' % n,
        # routing is by the exact MSH-9 text: none of these is registered
        'route-prefix-of-A': 'MSH|^~\\&|||||||AAA^A0|%s|P|2.5' % n,
        'route-type-only': 'MSH|^~\\&|||||||AAA|%s|P|2.5' % n,
        'route-prefix-of-B': 'MSH|^~\\&|||||||BBB^B01|%s|P|2.5' % n,
        'route-longer-than-A': 'MSH|^~\\&|||||||AAA^A01^AAA_A01|%s|P|2.5' % n,
        'route-empty-msh9': 'MSH|^~\\&||||||||%s|P|2.5' % n,
        'route-one-letter': 'MSH|^~\\&|||||||A|%s|P|2.5' % n,
        'route-no-msh9': 'MSH|^~\\&|X|Y',
        'route-lower-case': 'MSH|^~\\&|||||||aaa^a01|%s|P|2.5' % n,
    }[kind].encode()


def frames():
    """name -> (bytes, family)"""
    f = {}
    for k in ('registered-A', 'registered-B', 'unregistered', 'non-hl7', 'route-prefix-of-A', 'route-type-only', 'route-prefix-of-B',
              'route-longer-than-A', 'route-empty-msh9', 'route-one-letter', 'route-no-msh9', 'route-lower-case'):
        f[k] = SB + P(k) + CR + EB + CR
    f['registered-A-no-final-cr'] = SB + P('registered-A') + EB + CR
    f['empty-payload'] = SB + EB + CR
    f['no-start-block'] = P('registered-A') + CR + EB + CR
    f['garbage-before-sb'] = b'x' + SB + P('registered-A') + CR + EB + CR
    f['bytes-after-end-block'] = SB + P('registered-A') + CR + EB + CR + b'zz'
    f['second-frame-after'] = SB + P('registered-A') + CR + EB + CR + SB + P('registered-B', '2') + CR + EB + CR
    f['undecodable'] = SB + b'MSH|^~\\&|\xff\xfe||||||AAA^A01|1' + CR + EB + CR
    f['eb-without-cr'] = SB + P('registered-A') + CR + EB + b'x' + EB + CR
    f['blank-line'] = SB + b'MSH|^~\\&|||||||AAA^A01|1\r\rZ1A|x' + CR + EB + CR
    f['utf8'] = SB + 'MSH|^~\\&|||||||AAA^A01|é1|P|2.5'.encode('utf-8') + CR + EB + CR
    return f


# ----------------------------------------------------------------------------------- reference

_PAYLOAD_OK = re.compile(r'([^\r]+\r)*[^\r]+\r?')


def reference(stream, with_err):
    """-> dict(handler=None|tag, text=None|payload, reply_prefix=None|str, strict=bool).  strict False means the
    statement is silent about routing (malformed payload): only <=1 handler and closing are required."""
    none = dict(handler=None, text=None, reply=None, strict=True)
    if not stream.startswith(SB):
        return none
    e = stream.find(EB + CR)
    # the reader stops at the first EB CR pair; an EB CR that straddles nothing else is needed
    if e < 0:
        return none                                   # truncated frame
    raw = stream[1:e]
    try:
        text = raw.decode('utf-8')
    except UnicodeDecodeError:
        return none
    if text == '':
        return none
    if not _PAYLOAD_OK.fullmatch(text):
        return dict(handler=None, text=None, reply=None, strict=False)
    # routing
    m = re.match(r'^MSH(\S)', text)
    tag, exc = None, None
    if m is None:
        exc = 'InvalidHL7Message'
    else:
        first = text.split('\r', 1)[0].split(m.group(1))
        msh9 = first[8].strip() if len(first) > 8 else None
        tag = {'AAA^A01': 'A', 'BBB^B01^BBB_B01': 'B'}.get(msh9)
        if tag is None:
            exc = 'UnsupportedMessageType'
    if tag is None:
        if not with_err:
            return dict(handler=None, text=text, reply=None, strict=True)
        return dict(handler='ERR:' + exc, text=text, reply='NAK-%s[%s]' % (exc, ctl_id(text)), strict=True)
    return dict(handler=tag, text=text, reply='ACK-%s[%s]' % (tag, ctl_id(text)), strict=True)


def observe(chunks, after, with_err, send_cap=FakeSocket.SEND_CAP, srv=None):
    """Run the real handler over a scripted connection; return the public observations."""
    del LOG[:]
    srv = srv or server(with_err)
    del srv.errors[:]
    fs = FakeSocket(chunks, after=after)
    fs.SEND_CAP = send_cap
    srv.process_request_thread(fs, ('127.0.0.1', 1))
    return dict(log=list(LOG), sent=bytes(fs.sent), closed=fs.closed, errors=[type(e).__name__ for e in srv.errors],
                reads=fs.reads, delivered=bytes(fs.delivered))


def judge(res, name, stream, chunks, after, with_err, ob, point, rank):
    exp = reference(stream, with_err)
    news = [l for l in ob['log'] if l[0] == 'new']
    replies = [l for l in ob['log'] if l[0] == 'reply']
    fam = name
    cutkey = 'chunks=%d' % len(chunks)
    res.validated += 1
    ok = True

    def bad(sym, what):
        nonlocal ok
        ok = False
        res.violation('%s|%s|%s|%s' % (sym, fam, after if len(stream) < point['full'] else 'complete', 'err' if with_err else 'noerr'),
                      '%s: %s (stream %r cut %r then %s)' % (name, what, stream[:60], [len(c) for c in chunks], after), point, rank)
    if not ob['closed']:
        bad('not-closed', 'connection left open')
    if len(news) > 1 or len(replies) > 1:
        bad('extra-handler', 'more than one handler invocation: %r' % (ob['log'],))
    if exp['strict']:
        if exp['handler'] is None:
            if news:
                bad('unexpected-handler', 'handler %r invoked for input that is due no handler' % (news[0][1],))
            if ob['sent']:
                bad('unexpected-reply', 'reply %r sent' % (ob['sent'],))
        else:
            if not news:
                bad('no-handler', 'no handler invoked, expected %s' % exp['handler'])
            else:
                if news[0][1] != exp['handler']:
                    bad('wrong-handler', 'handler %s invoked, expected %s' % (news[0][1], exp['handler']))
                got = news[0][2]
                if got != exp['text'] and got != exp['text'].rstrip('\r') and got.rstrip('\r') != exp['text'].rstrip('\r'):
                    bad('wrong-text', 'handler received %r, framed text is %r' % (got, exp['text']))
                if exp['handler'] == 'B' and news[0][3] != ('extra',):
                    bad('wrong-args', 'handler arguments %r' % (news[0][3],))
            if ob['sent'] != exp['reply'].encode('utf-8'):
                bad('wrong-reply', 'reply %r, expected %r' % (ob['sent'], exp['reply']))
    cls = ('handler=%s' % (news[0][1] if news else None), 'reply' if ob['sent'] else 'silent', 'closed' if ob['closed'] else 'open',
           'exc' if ob['errors'] else 'clean')
    res.classes['|'.join(cls)] += 1
    return ok, cls


# ----------------------------------------------------------------------------------- units

def single_unit(name, with_err, maxparts, res):
    frame = frames()[name]
    L = len(frame)
    seen_classes = {}
    for b in range(0, L + 1):
        stream = frame[:b]
        for after in ('timeout', 'eof'):
            if b == 0:
                cutsets = [()]
            else:
                cutsets = compositions(b, maxparts)
            for cuts in cutsets:
                chunks = cut(stream, cuts) if b else []
                res.evaluations += 1
                res.enumerated += 1
                res.states += 1
                res.transitions += 1 + len(chunks)
                if len(chunks) > 1 or b < L:
                    res.nontrivial += 1
                ob = observe(chunks, after, with_err)
                point = {'kind': 'single', 'name': name, 'b': b, 'cuts': list(cuts), 'after': after, 'with_err': with_err,
                         'full': L, 'maxparts': maxparts}
                ok, cls = judge(res, name, stream, chunks, after, with_err, ob, point, b + len(chunks))
                seen_classes.setdefault(cls, point)
            res.expected_size += 1 if b == 0 else n_compositions(b, maxparts)
    res.dims['single:%s' % name] += 1
    res.sample({'payload': name, 'frame': repr(frame)[:120], 'len': L, 'with_err_handler': with_err}, cap=4)
    return seen_classes


def framing_unit(v, res):
    from hl7apy.core import Message
    from hl7apy.parser import parse_message
    ecs = [None, {'FIELD': '!', 'COMPONENT': '$', 'SUBCOMPONENT': '*', 'REPETITION': '?', 'ESCAPE': '@'}]
    for ec in ecs:
        m = Message('ADT_A01', version=v, encoding_chars=dict(ec, SEGMENT='\r', GROUP='\r') if ec else None)
        m.msh.msh_9 = 'AAA%sA01' % (ec['COMPONENT'] if ec else '^')
        m.msh.msh_10 = 'c1'
        m.pid.pid_5 = 'A%sB' % (ec['COMPONENT'] if ec else '^')
        m.add_segment('NK1').nk1_1 = '1'
        for trailing in (False, True):
            res.evaluations += 1
            res.enumerated += 1
            res.expected_size += 1
            res.states += 1
            res.transitions += 3
            er7 = m.to_er7(trailing_children=trailing)
            mllp = m.to_mllp(trailing_children=trailing)
            point = {'kind': 'framing', 'v': v}
            want = '\x0b' + er7 + '\r' + '\x1c' + '\r'
            res.validated += 1
            if mllp != want:
                res.violation('framing|to_mllp|%s' % ('trailing' if trailing else 'plain'), 'to_mllp() = %r, expected %r' % (mllp[:80], want[:80]), point, 0)
                continue
            if ec is not None:
                continue
            # the server extracts exactly the framed text
            data = mllp.encode('utf-8')
            for cuts in ((), (1,), (3,), (len(data) - 2,), (2, len(data) - 1)):
                ob = observe(cut(data, cuts), 'timeout', True)
                news = [l for l in ob['log'] if l[0] == 'new']
                res.evaluations += 1
                res.transitions += 1
                if len(news) != 1 or news[0][2].rstrip('\r') != er7 or news[0][1] != 'A' or not ob['closed']:
                    res.violation('framing|extract', 'server extracted %r from the frame of %r' % (news, er7[:80]), point, 1)
                else:
                    res.classes['framing-ok'] += 1
    res.sample({'framing': v}, cap=1)


def fresh_server(with_err):
    from hl7apy.mllp import MLLPServer
    s = MLLPServer('127.0.0.1', 0, handlers(with_err), timeout=5)
    s.errors = []
    s.handle_error = lambda request, addr: s.errors.append(sys.exc_info()[1])
    return s


class _Srv(object):
    """the server of the current execution (a new one per execution, so that whatever a request leaves behind on the
    server object is there exactly when the history of that execution put it there)"""
    cur = None

    @property
    def errors(self):
        return self.cur.errors


def multi_unit(kinds, bound, with_err, res, shard=None, only_schedule=None, warm=False):
    """kinds: tuple of payload kinds, one connection each, distinct control ids.  warm: the server has already served one
    connection of every kind (other control ids) when the connections of the execution arrive."""
    from . import c19
    sched.install()
    srv = _Srv()
    snap0 = c19.snapshot_shared()
    warmups = [SB + P(k, 'w%d' % i).replace(b'|P|2.5', b'') + CR + EB + CR for i, k in enumerate(('registered-A', 'registered-B', 'unregistered', 'non-hl7'))] if warm else []
    fr = []
    for i, k in enumerate(kinds):
        fr.append(SB + P(k, 'c%d' % i).replace(b'|P|2.5', b'') + CR + EB + CR)
    expected = [reference(f, with_err) for f in fr]
    socks = []

    def make():
        c19.restore_shared(snap0)
        if srv.cur is not None:
            srv.cur.server_close()
        srv.cur = fresh_server(with_err)
        for w in warmups:
            ws = FakeSocket([w], after='timeout')
            srv.cur.process_request_thread(ws, ('127.0.0.1', 2))
        del LOG[:]
        del srv.errors[:]
        del socks[:]
        bodies = []
        for i, f in enumerate(fr):
            # two arrivals per connection so that a partially read frame is on the table when another runs
            fs = FakeSocket([f[:7], f[7:]], after='timeout', on_op=lambda op: sched.external_point(op))
            socks.append(fs)
            bodies.append((lambda s, sv: (lambda: sv.process_request_thread(s, ('127.0.0.1', 1))))(fs, srv.cur))
        return bodies
    stats = {'n': 0, 'pre': 0}
    outcomes = set()
    point0 = {'kind': 'multi', 'kinds': list(kinds), 'bound': bound, 'with_err': with_err, 'warm': warm}
    sh = shard

    def on_exec(choices, results, ex):
        stats['n'] += 1
        if any(run_en and ch != 0 for (n_alt, run_en, _), ch in zip(ex.points, choices)):
            stats['pre'] += 1
        sent = [bytes(s.sent) for s in socks]
        closed = [s.closed for s in socks]
        news = [l for l in LOG if l[0] == 'new']
        outcomes.add((tuple(sent), tuple(closed), len(news)))
        pt = dict(point0, choices=list(choices))
        for i, exp in enumerate(expected):
            want = exp['reply'].encode() if exp['reply'] else b''
            if sent[i] != want:
                sym = 'cross-talk' if any(sent[i] == (e['reply'] or '').encode() and j != i for j, e in enumerate(expected)) and sent[i] else 'wrong-reply'
                res.violation('multi|%s|%s' % (sym, '+'.join(sorted(kinds))), 'connection %d (%s) received %r, expected %r under schedule %r'
                              % (i, kinds[i], sent[i], want, [(a, c) for a, c in enumerate(choices) if c]), pt, len(choices))
            if not closed[i]:
                res.violation('multi|not-closed|%s' % '+'.join(sorted(kinds)), 'connection %d left open' % i, pt, len(choices))
        want_n = sum(1 for e in expected if e['handler'])
        if len(news) != want_n:
            res.violation('multi|handler-count|%s' % '+'.join(sorted(kinds)), '%d handler invocations for %d connections that are due one: %r'
                          % (len(news), want_n, news), pt, len(choices))
        if srv.errors:
            res.violation('multi|exception|%s' % '+'.join(sorted(kinds)), 'handler thread raised %r' % (srv.errors[:2],), pt, len(choices))
    try:
        if only_schedule is not None:
            r, ex = sched.run_schedule(make, only_schedule)
            on_exec(ex.choices, r, ex)
            return
        n, capped = sched.explore(make, bound, on_exec, shard=shard)
    finally:
        if srv.cur is not None:
            srv.cur.server_close()
        c19.restore_shared(snap0)
    res.evaluations += n
    res.enumerated += n
    res.expected_size += n
    res.states += n
    res.transitions += n * len(kinds)
    res.validated += n
    res.nontrivial += stats['pre']
    res.classes['multi:distinct-outcomes=%d' % len(outcomes)] += 1
    res.dims['multi %d connections bound %d%s' % (len(kinds), bound, ' (server warmed up)' if warm else '')] += 1
    res.sample({'multi': list(kinds), 'bound': bound, 'warm': warm, 'executions': n, 'with_preemption': stats['pre']}, cap=3)


# ----------------------------------------------------------------------------------- real TCP conformance

def tcp_case(name, b, cuts, after, with_err):
    """Replay one script over a real loopback connection against a really serving MLLPServer."""
    from hl7apy.mllp import MLLPServer
    del LOG[:]
    srv = MLLPServer('127.0.0.1', 0, handlers(with_err), timeout=0.4)
    srv.errors = []
    srv.handle_error = lambda request, addr: srv.errors.append(sys.exc_info()[1])
    srv.daemon_threads = True
    t = threading.Thread(target=srv.serve_forever, kwargs={'poll_interval': 0.02}, daemon=True)
    t.start()
    try:
        port = srv.server_address[1]
        c = socket.create_connection(('127.0.0.1', port), timeout=10)
        c.setsockopt(socket.IPPROTO_TCP, socket.TCP_NODELAY, 1)
        stream = frames()[name][:b]
        try:
            for ch in (cut(stream, cuts) if b else []):
                c.sendall(ch)
                time.sleep(0.03)
            if after == 'eof':
                c.shutdown(socket.SHUT_WR)
        except OSError:
            pass    # the server has already closed the connection (e.g. first byte was not a start block)
        got = b''
        c.settimeout(10)
        while True:
            try:
                d = c.recv(4096)
            except (ConnectionResetError, socket.timeout):
                break
            if not d:
                break
            got += d
        c.close()
        time.sleep(0.05)
        return dict(log=list(LOG), sent=got, closed=True, errors=[type(e).__name__ for e in srv.errors])
    finally:
        srv.shutdown()
        srv.server_close()


def conformance_unit(cases, res):
    for (name, b, cuts, after, with_err) in cases:
        frame = frames()[name]
        stream = frame[:b]
        chunks = cut(stream, cuts) if b else []
        # the loopback takes a short reply in one write: the comparison is made with a scripted socket that does the same (the
        # short-write answer of the model is an environment answer the loopback cannot produce)
        # both sides start from a server that has served nothing (tcp_case builds its own), so that they stay comparable
        # when a request leaves something behind on the server object
        fsrv = fresh_server(with_err)
        try:
            fake = observe(chunks, after, with_err, send_cap=None, srv=fsrv)
        finally:
            fsrv.server_close()
        real = tcp_case(name, b, cuts, after, with_err)
        res.evaluations += 2
        res.transitions += 2
        res.validated += 1
        fn = [l[:3] for l in fake['log']]
        rn = [l[:3] for l in real['log']]
        point = {'kind': 'tcp', 'name': name, 'b': b, 'cuts': list(cuts), 'after': after, 'with_err': with_err}
        if fn != rn or fake['sent'] != real['sent']:
            # a disagreement means the socket model misrepresents TCP: harness error, never a verdict on the library
            raise HarnessError('socket model and real TCP disagree on %r: fake %r / %r, real %r / %r'
                               % (point, fn, fake['sent'], rn, real['sent']))
        res.classes['tcp-conformant'] += 1
        res.dims['tcp conformance cases'] += 1


TCP_CASES = [
    ('registered-A', 10 ** 6, (), 'timeout', True), ('registered-A', 10 ** 6, (1, 5), 'eof', True),
    ('registered-B', 10 ** 6, (3,), 'timeout', False), ('unregistered', 10 ** 6, (2, 30), 'timeout', True),
    ('unregistered', 10 ** 6, (), 'eof', False), ('non-hl7', 10 ** 6, (4,), 'timeout', True),
    ('registered-A', 12, (3,), 'eof', True), ('registered-A', 12, (), 'timeout', True),
    ('no-start-block', 10 ** 6, (), 'timeout', True), ('garbage-before-sb', 10 ** 6, (1,), 'eof', True),
    ('undecodable', 10 ** 6, (), 'timeout', True), ('empty-payload', 10 ** 6, (), 'timeout', True),
    ('bytes-after-end-block', 10 ** 6, (), 'timeout', True), ('registered-A-no-final-cr', 10 ** 6, (2,), 'timeout', True),
    ('registered-A', 0, (), 'eof', True), ('blank-line', 10 ** 6, (), 'timeout', True),
]


def units(tier):
    maxparts = 3 if tier == 'quick' else 4
    us = []
    for name in frames():
        for with_err in (True, False):
            # routing does not depend on how the frame arrives: the routing kinds are cut in at most two arrivals
            us.append(('single', name, with_err, 2 if name.startswith('route-') else maxparts))
    for v in VERSIONS:
        us.append(('framing', v))
    kinds = ['registered-A', 'registered-B', 'unregistered', 'non-hl7']
    NSH = 12
    for a, b in itertools.combinations_with_replacement(kinds, 2):
        deep = (a, b) in (('registered-A', 'registered-B'),) or tier != 'quick'
        if deep:
            for i in range(NSH):
                us.append(('multi', (a, b), 2, True, (i, NSH)))
        else:
            us.append(('multi', (a, b), 1, True, None))
    us.append(('multi', ('registered-A', 'unregistered'), 1, False, None))
    # the same pairs on a server that has already served one connection of every kind (non-initial start)
    for a, b in itertools.combinations_with_replacement(kinds, 2):
        us.append(('multi', (a, b), 1, True, None, True))
    us.append(('multi', ('registered-A', 'registered-B'), 1, False, None, True))
    for t in (('registered-A', 'registered-B', 'unregistered'), ('registered-A', 'registered-A', 'non-hl7')):
        if tier == 'quick':
            us.append(('multi', t, 1, True, None))
        else:
            for i in range(NSH):
                us.append(('multi', t, 2, True, (i, NSH)))
    for i in range(0, len(TCP_CASES), 4):
        us.append(('tcp', i))
    return us


def fix_case(c):
    name, b, cuts, after, with_err = c
    L = len(frames()[name])
    b = min(b, L)
    cuts = tuple(x for x in cuts if 0 < x < b)
    return (name, b, cuts, after, with_err)


def run_unit(unit, tier):
    res = Result()
    if unit[0] == 'single':
        single_unit(unit[1], unit[2], unit[3], res)
    elif unit[0] == 'framing':
        framing_unit(unit[1], res)
    elif unit[0] == 'multi':
        multi_unit(unit[1], unit[2], unit[3], res, unit[4], warm=len(unit) > 5 and unit[5])
    else:
        conformance_unit([fix_case(c) for c in TCP_CASES[unit[1]:unit[1] + 4]], res)
    return res


def run(tier, seed, extra):
    us = common.rotate(units(tier), seed)
    extra['bounds'] = {'max_arrivals': 3 if tier == 'quick' else 4, 'connections': 3,
                       'preemption_bound': {'2 connections': '2 for registered-A+registered-B, 1 for the other pairs' if tier == 'quick' else 2,
                                            '3 connections': 1 if tier == 'quick' else 2},
                       'payload_kinds': sorted(frames()), 'frame_lengths': {k: len(v) for k, v in frames().items()}}
    return common.run_units(run_unit, us, tier, fresh_process_per_unit=True)


def replay(point, res):
    k = point['kind']
    if k == 'single':
        frame = frames()[point['name']]
        stream = frame[:point['b']]
        chunks = cut(stream, point['cuts']) if point['b'] else []
        ob = observe(chunks, point['after'], point['with_err'])
        judge(res, point['name'], stream, chunks, point['after'], point['with_err'], ob, point, 0)
    elif k == 'framing':
        framing_unit(point['v'], res)
    elif k == 'multi':
        multi_unit(tuple(point['kinds']), point['bound'], point['with_err'], res, only_schedule=point.get('choices'), warm=point.get('warm', False))
    else:
        conformance_unit([(point['name'], point['b'], tuple(point['cuts']), point['after'], point['with_err'])], res)
