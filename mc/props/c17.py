"""C17 — explicit arguments override process-wide defaults.

Engine E1.  Configurations: 12 default versions x 2 default levels x 3 default delimiter sets = 72,
installed through the real setters.  Corpus: every parser entry point, constructor, encoder,
validator and the datatype factory called with explicit version / level / encoding characters (or
deriving them from the message text), for every version and both levels, with leaves of four
classes per base datatype (valid, invalid, valid but over-long, invalid and over-long).  Second
part: elements built under configuration A are observed again after switching to configuration B.
Oracle: every observable result (ER7 text, exception class, recursive children listing with names
and datatypes, validation report) equals the result under the baseline configuration.
"""
from __future__ import annotations

import sys

import hl7apy
from .. import common, refmodel, tables
from ..common import Result, VERSIONS, STRICT, TOLERANT, exc_class, libs
from .c12 import deep

ID = 'C17'
ENGINE = 'E1 grid'
RULE = ('one case = (default configuration, corpus call); a case is non-trivial when the configuration differs from the '
        'explicit arguments of the call in at least one of version / level / delimiters; distinct by construction')
ASSUMPTIONS = [
    'calls on parentless elements that take no encoding-characters argument (value assignment, to_er7() without argument) are '
    'outside the statement and are always given the characters explicitly or made inside a Message',
    'default delimiter sets: the standard one and two custom ones',
]

EC_SETS = [None,
           {'FIELD': '!', 'COMPONENT': '$', 'SUBCOMPONENT': '*', 'REPETITION': '?', 'ESCAPE': '@'},
           {'FIELD': ':', 'COMPONENT': '[', 'SUBCOMPONENT': ']', 'REPETITION': '{', 'ESCAPE': '/'}]


def configs():
    out = []
    for v in VERSIONS:
        for lvl in (TOLERANT, STRICT):
            for i in range(len(EC_SETS)):
                out.append((v, lvl, i))
    return out


def install(cfg):
    v, lvl, i = cfg
    common.pin_defaults()
    hl7apy.set_default_version(v)
    hl7apy.set_default_validation_level(lvl)
    if EC_SETS[i] is not None:
        hl7apy.set_default_encoding_chars(dict(EC_SETS[i]))


def obs(fn):
    try:
        return ('ok', fn())
    except Exception as e:
        return ('raise', exc_class(e))


def rep(m):
    r = m.validate(return_errors=True)
    return (r.is_valid, tuple(str(e) for e in r.errors), tuple(str(w) for w in r.warnings))


LEAF_CLASSES = {
    'NM': ['12.5', 'abc', '1' * 20, 'x' * 250], 'SI': ['7', 'abc', '12345', 'x' * 250], 'DT': ['20200229', '2020023', '20200229', 'x' * 250],
    'TM': ['1230', '2', '1230', 'x' * 250], 'DTM': ['20200229', '2020022', '20200229', 'x' * 250], 'ST': ['x', 'x', 'y' * 250, 'y' * 250],
    'ID': ['x', 'x', 'y' * 250, 'y' * 1001], 'IS': ['x', 'x', 'y' * 30, 'y' * 30], 'TN': ['(555)555-1234', 'abc', '5' * 250, 'x' * 250],
    'FT': ['x', 'x', 'y' * 250, 'y' * 250],
}


def corpus(v, lvl):
    """[(label, thunk)] — every thunk has its version, level and encoding characters explicit (or in the text)"""
    from hl7apy.core import Message, Group, Segment, Field, Component, SubComponent
    from hl7apy.parser import parse_message, parse_segments, parse_segment, parse_fields, parse_field, parse_components, parse_component, \
        parse_subcomponents, parse_subcomponent
    from hl7apy.factories import datatype_factory
    ec = dict(refmodel.default_ec(v))
    alt = dict(EC_SETS[1], SEGMENT='\r', GROUP='\r')
    if v >= '2.7':
        alt['TRUNCATION'] = '#'
    m9 = 'ADT^A01^ADT_A01' if len(dict(tables.field_rows(v, 'MSH'))[9].children) >= 3 else 'ADT^A01'
    text = 'MSH|^~\\&|A|B|||20200229||%s|1|P|%s\rEVN||20200229\rPID|1||I^^^AA||F^G\rPV1|1|I' % (m9, v)
    text_alt = 'MSH!$?@*!A!B!!!20200229!!%s!1!P!%s\rEVN!!20200229\rPID!1!!I$$$AA!!F$G\rPV1!1!I' % (m9.replace('^', '$'), v)
    def build_message(e):
        m = Message('ADT_A01', version=v, validation_level=lvl, encoding_chars=dict(e))
        m.msh.msh_9 = m9.replace('^', e['COMPONENT'])
        m.msh.msh_10 = '1'
        m.msh.msh_11 = 'P'
        m.evn.evn_2 = '20200229'
        m.pid.pid_3 = 'I' + e['COMPONENT'] * 3 + 'A' + e['SUBCOMPONENT'] + 'U'
        m.pid.pid_5.value = 'F' + e['COMPONENT'] + 'G'
        m.pid.pid_3.cx_1 = 'II'
        if 'CX' in libs()[v].DATATYPES_STRUCTS:
            # a string with the message's own sub-component separator given to a component through the child API
            m.pid.pid_3.cx_4 = 'NS' + e['SUBCOMPONENT'] + 'U2'
            m.pid.pid_3.cx_6.value = 'F1' + e['SUBCOMPONENT'] + 'F2'
        m.add_segment('PV1').pv1_2 = 'I'
        return m
    c = []

    def add(label, fn):
        c.append((label, fn))
    add('parse_message', lambda: (lambda m: (m.to_er7(), deep(m), rep(m)))(parse_message(text, validation_level=lvl)))
    add('parse_message-custom', lambda: (lambda m: (m.to_er7(), deep(m)))(parse_message(text_alt, validation_level=lvl)))
    add('parse_message-nogroups', lambda: parse_message(text, validation_level=lvl, find_groups=False).to_er7())
    add('parse_segments', lambda: [s.to_er7(ec) for s in parse_segments('EVN||20200229\rPID|1||I', version=v, encoding_chars=ec, validation_level=lvl)])
    for e, tag in ((ec, 'std'), (alt, 'alt')):
        F, C, S, R = e['FIELD'], e['COMPONENT'], e['SUBCOMPONENT'], e['REPETITION']
        add('parse_segment-' + tag, lambda e=e, F=F, C=C, S=S, R=R: (lambda s: (s.to_er7(e), deep_ec(s, e)))(
            parse_segment('PID%s1%s%sI%s%s%sA%sU%sJ%s%sF%sG' % (F, F, F, C, C, C, S, R, F, F, C), version=v, encoding_chars=e, validation_level=lvl)))
        add('parse_fields-' + tag, lambda e=e, F=F, C=C: [f.to_er7(e) for f in parse_fields('1%s%sI%sJ' % (F, F, C), name_prefix='PID', version=v, encoding_chars=e, validation_level=lvl)])
        add('parse_field-' + tag, lambda e=e, C=C, S=S: (lambda f: (f.to_er7(e), deep_ec(f, e)))(parse_field('I%s%s%sA%sU' % (C, C, C, S), name='PID_3', version=v, encoding_chars=e, validation_level=lvl)))
        add('parse_components-' + tag, lambda e=e, C=C: [x.to_er7(e) for x in parse_components('F%sG' % C, field_datatype=dict(tables.field_rows(v, 'PID'))[5].datatype, version=v, encoding_chars=e, validation_level=lvl)])
        add('parse_component-' + tag, lambda e=e, S=S: parse_component('A%sU' % S, name='CX_4' if 'CX' in libs()[v].DATATYPES_STRUCTS else None, datatype=None, version=v, encoding_chars=e, validation_level=lvl).to_er7(e))
        add('parse_subcomponents-' + tag, lambda e=e, S=S: [x.to_er7(e) for x in parse_subcomponents('A%sU' % S, component_datatype='HD', version=v, encoding_chars=e, validation_level=lvl)])
    add('parse_subcomponent', lambda: parse_subcomponent('x', name=None, datatype='ST', version=v, validation_level=lvl).to_er7(ec))
    # the explicit delimiter argument is the library's own constant, or a dictionary obtained from the library before the
    # defaults were changed: it is the caller's from then on
    const = hl7apy.consts.DEFAULT_ENCODING_CHARS_27 if v >= '2.7' else hl7apy.consts.DEFAULT_ENCODING_CHARS
    held = hl7apy.get_default_encoding_chars(v)
    for e, tag in ((const, 'libconst'), (held, 'held')):
        add('parse_segment-' + tag, lambda e=e: (lambda s_: (s_.to_er7(e), deep_ec(s_, e)))(parse_segment('PID|1||I^^^A&U~J||F^G', version=v, encoding_chars=e, validation_level=lvl)))
        add('Message-' + tag, lambda e=e: (lambda m: (m.to_er7(), m.to_er7(e)))(build_message(e)))
    # more components / subcomponents than the datatype has (the parsers fall back to unnamed elements under TOLERANT)
    many = 'I^^^A&U^c5^c6^c7^c8^c9^c10^c11^c12^c13^c14'
    add('parse_field-excess-components', lambda: (lambda f: (f.to_er7(ec), deep_ec(f, ec)))(parse_field(many, name='PID_3', version=v, encoding_chars=ec, validation_level=lvl)))
    add('parse_segment-excess-components', lambda: (lambda s_: (s_.to_er7(ec), deep_ec(s_, ec)))(parse_segment('PID|1||' + many + '||F^G&h&i&j&k&l', version=v, encoding_chars=ec, validation_level=lvl)))
    add('parse_component-excess-subcomponents', lambda: parse_component('A&U&x&y&z&w', name='CX_4' if 'CX' in libs()[v].DATATYPES_STRUCTS else None, datatype=None, version=v, encoding_chars=ec, validation_level=lvl).to_er7(ec))
    add('parse_message-excess-components', lambda: (lambda m: (m.to_er7(), deep(m)))(parse_message(text.replace('I^^^AA', many), validation_level=lvl)))
    # an explicit version that is not supported is refused whatever the default version is
    for bad in ('2.9', ' ' + v, 'v' + v, ''):
        add('parse_segment-unsupported-version-%r' % bad, lambda bad=bad: (lambda x: (x.version, x.to_er7(ec)))(parse_segment('PID|1', version=bad, encoding_chars=ec, validation_level=lvl)))
        add('parse_field-unsupported-version-%r' % bad, lambda bad=bad: (lambda x: (x.version, x.to_er7(ec)))(parse_field('I^J', name='PID_3', version=bad, encoding_chars=ec, validation_level=lvl)))
        add('parse_component-unsupported-version-%r' % bad, lambda bad=bad: (lambda x: (x.version, x.to_er7(ec)))(parse_component('A&U', datatype='HD', version=bad, encoding_chars=ec, validation_level=lvl)))
        add('parse_subcomponent-unsupported-version-%r' % bad, lambda bad=bad: (lambda x: (x.version, x.to_er7(ec)))(parse_subcomponent('x', datatype='ST', version=bad, validation_level=lvl)))
        add('parse_segments-unsupported-version-%r' % bad, lambda bad=bad: [(x.version, x.to_er7(ec)) for x in parse_segments('EVN||2020\rPID|1', version=bad, encoding_chars=ec, validation_level=lvl)])
        add('parse_fields-unsupported-version-%r' % bad, lambda bad=bad: [(x.version, x.to_er7(ec)) for x in parse_fields('1||I', name_prefix='PID', version=bad, encoding_chars=ec, validation_level=lvl)])
        add('Segment-unsupported-version-%r' % bad, lambda bad=bad: Segment('PID', version=bad, validation_level=lvl).version)
    add('parse_field-unknown', lambda: parse_field('a^b', version=v, encoding_chars=ec, validation_level=lvl).to_er7(ec))
    add('parse_segment-z', lambda: parse_segment('ZZZ|a|b^c', version=v, encoding_chars=ec, validation_level=lvl).to_er7(ec))

    add('Message-std', lambda: (lambda m: (m.to_er7(), m.to_mllp(), deep(m), rep(m)))(build_message(ec)))
    add('Message-alt', lambda: (lambda m: (m.to_er7(), deep(m), rep(m)))(build_message(alt)))
    add('Segment', lambda: (lambda s: (s.to_er7(ec), s.to_er7(alt), s.version, s.validation_level))(Segment('PID', version=v, validation_level=lvl)))
    add('Group', lambda: (lambda g: (g.version, g.validation_level, g.to_er7(ec)))(Group('ADT_A01_INSURANCE', version=v, validation_level=lvl)))
    add('Field', lambda: (lambda f: (f.to_er7(ec), f.datatype, f.version))(Field('PID_3', version=v, validation_level=lvl)))
    add('Field-z', lambda: (lambda f: (f.datatype, f.to_er7(ec)))(Field('ZZZ_1', datatype='CX' if 'CX' in libs()[v].DATATYPES_STRUCTS else 'ST', version=v, validation_level=lvl)))
    add('Component', lambda: (lambda x: (x.datatype, x.to_er7(ec)))(Component('CX_4' if 'CX' in libs()[v].DATATYPES_STRUCTS else 'CE_1', version=v, validation_level=lvl)))
    add('SubComponent', lambda: SubComponent('HD_1', value='n', version=v, validation_level=lvl).to_er7(ec))
    # base datatypes of *all* versions: is this datatype base in the explicit version? (add_subcomponent consults it)
    allbase = sorted({d for vv in VERSIONS for d in libs()[vv].BASE_DATATYPES})
    for dt in allbase:
        add('Component-%s-add_subcomponent' % dt, lambda dt=dt: (lambda x: x.add_subcomponent(dt).name)(Component(datatype=dt, version=v, validation_level=lvl)))
        add('base-field-2-components-%s' % dt, lambda dt=dt: (lambda f: (f.to_er7(ec), f.datatype, [c.datatype for c in f.children]))(
            parse_field('p^q', name='ZZZ_1', version=v, encoding_chars=ec, validation_level=lvl, reference=('leaf', None, dt, None, None, -1))))
        add('base-field-value-%s' % dt, lambda dt=dt: (lambda f: (f.to_er7(ec), f.datatype))(
            parse_field(LEAF_CLASSES.get(dt, ['x'])[0], name='ZZZ_1', version=v, encoding_chars=ec, validation_level=lvl, reference=('leaf', None, dt, None, None, -1))))
        add('SubComponent-dt-%s' % dt, lambda dt=dt: SubComponent(datatype=dt, value=(LEAF_CLASSES.get(dt, ['x'])[0]), version=v, validation_level=lvl).to_er7(ec))
    for dt in sorted(libs()[v].BASE_DATATYPES):
        for ci, val in enumerate(LEAF_CLASSES.get(dt, ['x', 'x', 'y' * 250, 'y' * 250])):
            add('factory-%s-%d' % (dt, ci), lambda dt=dt, val=val: (lambda o: (type(o).__name__, o.to_er7(ec)))(datatype_factory(dt, val, v, lvl)))
            add('leaf-in-segment-%s-%d' % (dt, ci), lambda dt=dt, val=val: parse_field(val, name='ZZZ_1', version=v, encoding_chars=ec, validation_level=lvl,
                                                                                      reference=('leaf', None, dt, None, None, -1)).to_er7(ec))
    return c


def deep_ec(e, ec):
    """recursive listing with explicit encoding characters (parentless elements)"""
    try:
        kids = list(e.children)
    except Exception:
        kids = []
    dt = getattr(e, 'datatype', None) if type(e).__name__ in ('Field', 'Component', 'SubComponent') else None
    return (type(e).__name__, e.name, dt, e.to_er7(ec), tuple(deep_ec(c, ec) for c in kids))


SITES = set()


def wrap_getters():
    """record the call sites of the default getters reached by the corpus (coverage information)"""
    import hl7apy.core, hl7apy.parser, hl7apy.factories, hl7apy.base_datatypes   # noqa
    mods = [m for n, m in sys.modules.items() if m is not None and (n == 'hl7apy' or n.startswith('hl7apy.')) and not n.endswith(('messages', 'segments', 'fields', 'datatypes', 'groups', 'tables'))]
    for name in ('get_default_version', 'get_default_validation_level', 'get_default_encoding_chars'):
        orig = getattr(hl7apy, name)
        if getattr(orig, '_verif_wrapped', False):
            continue

        def make(orig, name):
            def w(*a, **k):
                f = sys._getframe(1)
                SITES.add('%s:%s:%d <- %s' % (f.f_code.co_filename.split('hl7apy/')[-1], f.f_code.co_name, f.f_lineno, name))
                return orig(*a, **k)
            w._verif_wrapped = True
            return w
        w = make(orig, name)
        for m in mods:
            if getattr(m, name, None) is orig:
                setattr(m, name, w)


def run_unit(unit, tier):
    res = Result()
    kind = unit[0]
    if kind == 'corpus':
        _, v, lvl, cfgs = unit
        wrap_getters()
        common.pin_defaults()
        install((v, lvl, 0))     # baseline: the defaults agree with the explicit arguments
        calls = corpus(v, lvl)
        base = [obs(fn) for _, fn in calls]
        res.dims['corpus calls (v=%s)' % v] = len(calls)
        for cfg in cfgs:
            install(cfg)
            SITES.clear()
            for (label, fn), want in zip(calls, base):
                res.evaluations += 1
                res.enumerated += 1
                res.states += 1
                res.transitions += 1
                if cfg != (v, lvl, 0):
                    res.nontrivial += 1
                got = obs(fn)
                res.validated += 1
                if got != want:
                    sites = sorted(SITES)
                    fam = label.split('-')[0]
                    what = 'level' if cfg[1] != lvl and cfg[0] == v and cfg[2] == 0 else 'version' if cfg[0] != v and cfg[1] == lvl and cfg[2] == 0 else 'mixed'
                    res.violation('depends-on-default|%s|%s' % (fam, diff_kind(want, got)),
                                  'explicit v%s/%s call %s: under defaults (v%s, %s, set %d) gives %s, baseline %s'
                                  % (v, 'STRICT' if lvl == STRICT else 'TOLERANT', label, cfg[0], 'STRICT' if cfg[1] == STRICT else 'TOLERANT', cfg[2],
                                     str(got)[:160], str(want)[:160]),
                                  {'kind': 'corpus', 'v': v, 'lvl': lvl, 'cfg': list(cfg), 'label': label}, len(label))
                else:
                    res.classes[want[0] if want[0] == 'ok' else 'raise:' + want[1]] += 1
            for s_ in SITES:
                res.dims['default consulted at ' + s_] += 1
        common.pin_defaults()
    else:
        _, v, lvl = unit
        switch_unit(res, v, lvl)
    res.expected_size = res.enumerated
    return res


def diff_kind(want, got):
    if want[0] != got[0]:
        return '%s->%s' % (want[0] if want[0] == 'ok' else want[1], got[0] if got[0] == 'ok' else got[1])
    if want[0] == 'raise':
        return 'exception-class'
    return 'value'


def switch_unit(res, v, lvl):
    """elements built under configuration A are unchanged by a switch to any configuration B"""
    from hl7apy.parser import parse_message
    from hl7apy.core import Message
    common.pin_defaults()
    for a in configs()[::7]:
        install(a)
        m9 = 'ADT^A01^ADT_A01' if len(dict(tables.field_rows(v, 'MSH'))[9].children) >= 3 else 'ADT^A01'
        text = 'MSH|^~\\&|A|B|||20200229||%s|1|P|%s\rEVN||20200229\rPID|1||I^^^AA||F^G\rPV1|1|I' % (m9, v)
        try:
            m = parse_message(text, validation_level=lvl)
            b = Message('ADT_A01', version=v, validation_level=lvl, encoding_chars=dict(refmodel.default_ec(v)))
            b.pid.pid_5 = 'F^G'
        except Exception as e:
            # the same calls succeed under the baseline configuration (they are in the corpus): failing here is a dependence
            # on the defaults
            res.violation('depends-on-default|switch-build|%s' % exc_class(e), 'explicit v%s call fails under defaults %r only: %s: %s' % (v, a, exc_class(e), e),
                          {'kind': 'switch', 'v': v, 'lvl': lvl}, 1)
            continue
        before = [(x.to_er7(), deep(x), rep(x), x.version, x.validation_level) for x in (m, b)]
        for cfg in configs()[::5]:
            install(cfg)
            res.evaluations += 1
            res.enumerated += 1
            res.states += 1
            res.transitions += 2
            res.nontrivial += 1
            after = [(x.to_er7(), deep(x), rep(x), x.version, x.validation_level) for x in (m, b)]
            res.validated += 1
            if after != before:
                res.violation('existing-element-changed|%s' % ('parsed' if after[0] != before[0] else 'built'),
                              'element built under defaults %r changed after switching to %r' % (a, cfg), {'kind': 'switch', 'v': v, 'lvl': lvl}, 1)
            else:
                res.classes['existing-unchanged'] += 1
    common.pin_defaults()


def units(tier):
    us = []
    cfgs = configs()
    vs = VERSIONS
    for v in vs:
        for lvl in (TOLERANT, STRICT):
            if tier == 'quick':
                # every configuration for 4 explicit versions; for the others the 24 version x level configurations
                cs = cfgs
            else:
                cs = cfgs
            for i in range(0, len(cs), 24):
                us.append(('corpus', v, lvl, tuple(cs[i:i + 24])))
        us.append(('switch', v, TOLERANT))
    return us


def run(tier, seed, extra):
    us = common.rotate(units(tier), seed)
    extra['bounds'] = {'configurations': 72, 'default_delimiter_sets': 3,
                       'explicit_versions_under_all_72': 'all'}
    return common.run_units(run_unit, us, tier, fresh_process_per_unit=True)


def replay(point, res):
    if point['kind'] == 'switch':
        switch_unit(res, point['v'], point['lvl'])
        return
    r = run_unit(('corpus', point['v'], point['lvl'], (tuple(point['cfg']),)), 'quick')
    res.merge(r)
