"""C18 — a message profile replaces the standard structure wherever it speaks.

Engine E1.  For every standard message structure: the identity profile {name: MESSAGES[name]} and
edited profiles with one edit each at every child of the message and of its groups (tighten the
maximum to 1, raise the minimum to 1, remove the child); per (version, segment) a datatype swap
ST<->NM and a cardinality edit at every leaf field, observed through four creation paths
(traversal read+write, add_* helpers, parse_message(message_profile=), assignment of text); the
shipped ITI-21 profile; a profile lacking the structure; the two legacy files.
Oracle: identity profile => every observation equals the no-profile run; edited profile => the
edit, and only the profile run, shows at the edit site (validation error naming the child, STRICT
refusal, datatype of the created child); MessageProfileNotFound / LegacyMessageProfile as stated.
"""
from __future__ import annotations

import os
import re

from .. import common, tables, structures as st, conform, refmodel
from ..common import Result, VERSIONS, STRICT, TOLERANT, exc_class, libs
from .c12 import deep

ID = 'C18'
ENGINE = 'E1 grid'
RULE = ('one case = (version, structure, profile edit, observation path); distinct by construction; non-trivial = edited '
        'profiles (the identity profile is the trivial case)')
ASSUMPTIONS = [
    'profiles are synthesised from the standard tables (same tuple shape as the shipped ITI-21 profile), one edit each',
    'message/group-level edits at every child site of every structure; field-level edits for the segments of v2.5 (thorough: all versions)',
    'structures / segments with anomalous table rows are blocked and counted',
]


def errs(m):
    r = m.validate(return_errors=True)
    return [str(e) for e in r.errors]


def edit_children(ref, name, fn):
    kids = []
    for c in ref[1]:
        if c[0] == name:
            r = fn(c)
            if r is not None:
                kids.append(r)
        else:
            kids.append(c)
    return (ref[0], tuple(kids)) + tuple(ref[2:])


def edit_path(ref, path, fn):
    """rebuild the nested tuples along path (child names); fn edits the child row at the end"""
    if len(path) == 1:
        return edit_children(ref, path[0], fn)
    return edit_children(ref, path[0], lambda c: (c[0], edit_path(c[1], path[1:], fn), c[2], c[3]))


def child_sites(ref, tree, path=()):
    """[(path, row)] for every child of the message and of the groups present in the instance tree"""
    out = []
    decl = {c[0]: c for c in st.children_of(ref) if len(c) == 4}
    for name, c in decl.items():
        if name in ('MSH', 'ANYHL7SEGMENT') or c[1] is None:
            continue
        out.append((path + (name,), c))
    for n in tree:
        if n[0] == 'G' and n[1] in decl:
            out.extend(child_sites(decl[n[1]][1], n[2], path + (n[1],)))
    return out


def subtree_for(row):
    name, cref, card, cls = row
    if cls == 'SEG':
        return ('S', name)
    kids = st.gen(cref, 'required', keep_empty=True)
    return ('G', name, kids)


def insert_child(tree, path, node, copies):
    """return a copy of the tree with `copies` extra instances of node appended under the group path"""
    if not path:
        return list(tree) + [node] * copies
    out = []
    done = False
    for n in tree:
        if n[0] == 'G' and n[1] == path[0] and not done:
            out.append(('G', n[1], insert_child(n[2], path[1:], node, copies)))
            done = True
        else:
            out.append(n)
    return out


def has_child(tree, path):
    for n in tree:
        if n[1] == path[0]:
            if len(path) == 1:
                return True
            if n[0] == 'G':
                return has_child(n[2], path[1:])
    return False


def message_unit(v, name, res, tier):
    info = st.structure_info(v, name)
    if info['anomalies'] or any(n > 1 and False for n in info['occ'].values()):
        res.blocked['structure with anomalous rows'] += 1
        return
    ref = tables.msg_ref(v, name)
    tree = [t for _, t in st.instances(v, name, ('required',), keep_empty=True)][0]
    point = {'kind': 'message', 'v': v, 'name': name}
    from hl7apy.parser import parse_message
    from hl7apy.core import Message
    # ---- identity profile
    prof = {name: ref}
    res.evaluations += 2
    res.enumerated += 1
    res.states += 1
    res.transitions += 6
    try:
        a = conform.build_message(v, name, tree, spell_structure=True)
        b = conform.build_message(v, name, tree, reference=prof, spell_structure=True)
        oa = (a.to_er7(), deep(a), errs(a))
        ob = (b.to_er7(), deep(b), errs(b))
        text = a.to_er7()
        pa = parse_message(text, validation_level=TOLERANT)
        pb = parse_message(text, validation_level=TOLERANT, message_profile=prof)
        opa = (pa.to_er7(), deep(pa), errs(pa))
        opb = (pb.to_er7(), deep(pb), errs(pb))
    except Exception as e:
        res.violation('identity-raises|%s|%s|%s' % (v, name, exc_class(e)), 'identity profile of %s (v%s): %s: %s' % (name, v, exc_class(e), e), point, 0)
        return
    res.validated += 2
    if oa != ob:
        w = 'encoding' if oa[0] != ob[0] else 'children' if oa[1] != ob[1] else 'validation'
        res.violation('identity-differs|build|%s|%s|%s' % (w, v, name), 'building %s (v%s) with the identity profile differs in %s: %r vs %r' % (name, v, w, str(oa)[:150], str(ob)[:150]), point, 0)
    if opa != opb:
        w = 'encoding' if opa[0] != opb[0] else 'children' if opa[1] != opb[1] else 'validation'
        res.violation('identity-differs|parse|%s|%s|%s' % (w, v, name), 'parsing %s (v%s) with the identity profile differs in %s' % (name, v, w), point, 0)
    if oa == ob and opa == opb:
        res.classes['identity-equal'] += 1
    dup = {s for s, n in info['occ'].items() if n > 1}
    base_errs = set(oa[2])
    # ---- one edit per child site
    for path, row in child_sites(ref, tree):
        cname, cref, (mn, mx), cls = row
        if cname in dup:
            res.blocked['child listed more than once in the structure (D12)'] += 1
            continue
        parent = path[-2] if len(path) > 1 else name
        edits = []
        if mx == -1 or mx > 1:
            edits.append(('max1', lambda c: (c[0], c[1], (c[2][0], 1), c[3])))
        if mn == 0:
            edits.append(('min1', lambda c: (c[0], c[1], (1, c[2][1]), c[3])))
        edits.append(('remove', lambda c: None))
        for ename, fn in edits:
            res.evaluations += 2
            res.enumerated += 1
            res.states += 1
            res.nontrivial += 1
            res.transitions += 4
            eprof = {name: edit_path(ref, path, fn)}
            pt = dict(point, edit=[ename, list(path)])
            try:
                if ename == 'max1':
                    have = 1 if has_child(tree, path) else 0
                    t2 = insert_child(tree, path[:-1], subtree_for(row), 2 - have)
                    marker = 'Child limit exceeded %s.%s' % (parent, cname)
                elif ename == 'min1':
                    t2 = tree
                    marker = 'Missing required child %s.%s' % (parent, cname)
                else:
                    t2 = tree if has_child(tree, path) else insert_child(tree, path[:-1], subtree_for(row), 1)
                    marker = cname
                std = conform.build_message(v, name, t2)
                text = std.to_er7()
                e_std = errs(std)
                pm = parse_message(text, validation_level=TOLERANT, message_profile=eprof, find_groups=False) if False else None
                # build under the profile through the API
                if ename == 'remove':
                    # the removed child can still be attached under TOLERANT; validation must then reject it
                    prof_msg = build_with_foreign(v, name, t2, eprof, path, row)
                else:
                    prof_msg = conform.build_message(v, name, t2, reference=eprof)
                e_prof = errs(prof_msg)
            except Exception as e:
                res.violation('edit-raises|%s|%s|%s' % (ename, v, exc_class(e)), '%s edit at %s of %s (v%s): %s: %s' % (ename, '/'.join(path), name, v, exc_class(e), e), pt, 2)
                continue
            res.validated += 2
            in_std = [t for t in e_std if marker in t and (ename != 'remove' or 'Invalid children' in t or 'limit' in t)]
            in_prof = [t for t in e_prof if marker in t]
            if not in_prof:
                res.violation('profile-ignored|validate|%s|%s|%s|%s' % (ename, v, name, '/'.join(path)),
                              '%s edit at %s of %s (v%s): validation against the profile does not report %r (errors %r)' % (ename, '/'.join(path), name, v, marker, e_prof[:3]), pt, 2)
                res.classes['profile-ignored'] += 1
                continue
            if in_std and ename != 'remove':
                res.violation('standard-affected|%s|%s|%s' % (ename, v, name), 'the standard run already reports %r' % in_std[:1], pt, 2)
                continue
            res.classes['edit-observed:%s' % ename] += 1
            if ename == 'min1' and len(path) == 1 and cls == 'SEG':
                # a message created with the profile and then given its content as text is still judged by the profile
                # (only for an optional top-level segment made required: there the parsed tree is the built one)
                res.evaluations += 1
                res.transitions += 2
                try:
                    vm = Message(name, version=v, reference=eprof)
                    vm.value = text
                    e_val = errs(vm)
                except Exception as e:
                    if common.is_lib_exc(e):
                        res.dims['value-assignment path refused by the library (%s)' % exc_class(e)] += 1
                        e_val = None
                    else:
                        res.violation('edit-raises|value-assignment|%s|%s' % (ename, exc_class(e)), 'Message(reference=profile).value = text: %s: %s' % (exc_class(e), e), pt, 2)
                        e_val = None
                if e_val is not None:
                    if not [t for t in e_val if marker in t]:
                        res.violation('profile-ignored|value-assignment|%s|%s|%s' % (ename, v, name),
                                      '%s edit at %s of %s (v%s): after message.value = text validation no longer reports %r (errors %r)'
                                      % (ename, '/'.join(path), name, v, marker, e_val[:3]), pt, 2)
                    else:
                        res.classes['profile-kept-after-value-assignment'] += 1
            if ename == 'min1' and len(path) >= 2:
                # the same edit seen through the parser when the groups around the site occur more than once: every instance of
                # the parent group that lacks the child is reported, the later instances too
                res.evaluations += 1
                res.transitions += 2
                try:
                    t3 = prune_all(tree_along(ref, path[:-1]), path)
                    text3 = conform.build_message(v, name, t3).to_er7()
                    q_std = parse_message(text3, validation_level=TOLERANT)
                    q_prof = parse_message(text3, validation_level=TOLERANT, message_profile=eprof)
                    e3 = errs(q_prof)
                except Exception as e:
                    res.violation('edit-raises|parse-rep2|%s|%s' % (ename, exc_class(e)), '%s edit at %s of %s (v%s), every repeatable group twice, parsed with the '
                                  'profile: %s: %s' % (ename, '/'.join(path), name, v, exc_class(e), e), pt, 3)
                    continue
                if st.parsed_shape(q_std) != st.parsed_shape(q_prof):
                    res.violation('profile-changes-grouping|%s|%s' % (v, name), '%s edit at %s of %s (v%s): the parser groups the segments differently with the '
                                  'profile' % (ename, '/'.join(path), name, v), pt, 3)
                    continue
                lacking = count_lacking(q_prof, parent, cname)
                exact = re.compile(re.escape(marker) + r'(?![A-Za-z0-9_])')
                got3 = sum(1 for t in e3 if exact.search(t))
                # each instance judged on its own (group.validate() goes by the reference the instance carries)
                for g in groups_named(q_prof, parent):
                    if any(k.name == cname for k in g.children):
                        continue
                    try:
                        own = [str(x) for x in g.validate(return_errors=True).errors]
                    except Exception as e:
                        own = ['validate raises %s' % exc_class(e)]
                    if not any(exact.search(t) for t in own):
                        res.violation('profile-ignored|group-instance|%s|%s|%s|%s' % (ename, v, name, '/'.join(path)),
                                      '%s edit at %s of %s (v%s): an instance of %s parsed with the profile and validated on its own does not '
                                      'report %r (errors %r)' % (ename, '/'.join(path), name, v, parent, marker, own[:3]), pt, 3)
                        break
                if lacking >= 2:
                    res.nontrivial += 1
                if got3 != lacking:
                    res.violation('profile-ignored|parse-rep2|%s|%s|%s|%s' % (ename, v, name, '/'.join(path)),
                                  '%s edit at %s of %s (v%s): %d instances of %s lack %s, validation against the profile reports %d of them'
                                  % (ename, '/'.join(path), name, v, lacking, parent, cname, got3), pt, 3)
                else:
                    res.classes['edit-observed-in-every-instance'] += 1
            # STRICT construction follows the profile too
            if ename in ('max1', 'remove'):
                res.evaluations += 1
                res.transitions += 2
                try:
                    sm = Message(name, version=v, validation_level=STRICT, reference=eprof)
                    par = sm
                    ok = True
                    for g in path[:-1]:
                        par = par.add_group(g)
                    adder = par.add_segment if cls == 'SEG' else par.add_group
                    if ename == 'max1':
                        adder(cname)
                    try:
                        adder(cname)
                        refused = False
                    except Exception as e:
                        refused = common.is_lib_exc(e)
                except Exception as e:
                    res.dims['STRICT construction path not buildable'] += 1
                    continue
                if not refused:
                    res.violation('profile-ignored|strict|%s|%s|%s|%s' % (ename, v, name, '/'.join(path)),
                                  '%s edit at %s of %s (v%s): a STRICT message with the profile accepts the child the profile forbids' % (ename, '/'.join(path), name, v), pt, 2)
                else:
                    res.classes['strict-follows-profile'] += 1
    res.dims['structures'] += 1
    res.sample({'v': v, 'structure': name, 'sites': len(child_sites(ref, tree))}, cap=3)


def tree_along(ref, gpath):
    """required children only, except that the groups named by gpath are present, twice each when they may repeat"""
    out = []
    for c in st.children_of(ref):
        try:
            cname, cref, (mn, mx), cls = c
        except Exception:
            continue
        if cref is None or cname == 'ANYHL7SEGMENT':
            continue
        if cls == 'SEG':
            if mn >= 1:
                out.append(('S', cname))
        elif gpath and cname == gpath[0]:
            for _ in range(2 if (mx == -1 or mx > 1) else 1):
                kids = tree_along(cref, gpath[1:]) or st.first_segment(cref)
                out.append(('G', cname, kids))
        elif mn >= 1:
            kids = st.gen(cref, 'required')
            if kids:
                out.append(('G', cname, kids))
    return out


def prune_all(tree, path):
    """the tree without the child at `path`, in every instance of the groups along the path"""
    out = []
    for n in tree:
        if n[1] == path[0]:
            if len(path) == 1:
                continue
            if n[0] == 'G':
                out.append(('G', n[1], prune_all(n[2], path[1:])))
                continue
        out.append(n)
    return out


def groups_named(e, name):
    for c in e.children:
        if c.classname == 'Group':
            if c.name == name:
                yield c
            for g in groups_named(c, name):
                yield g


def count_lacking(e, parent, cname):
    n = 0
    for c in e.children:
        if c.classname == 'Group':
            if c.name == parent and not any(k.name == cname for k in c.children):
                n += 1
            n += count_lacking(c, parent, cname)
    return n


def build_with_foreign(v, name, tree, prof, path, row):
    """build the tree under the profile, leaving the removed child out, then attach it (TOLERANT allows it)"""
    t_wo = remove_node(tree, path)
    m = conform.build_message(v, name, t_wo, reference=prof)
    par = conform.find_parent(m, path[:-1])
    cname, cref, card, cls = row
    if cls == 'SEG':
        s = par.add_segment(cname)
        conform.fill_segment(s, v, cref)
    else:
        par.add_group(cname)
    return m


def remove_node(tree, path):
    out = []
    for n in tree:
        if n[1] == path[0]:
            if len(path) == 1:
                continue
            if n[0] == 'G':
                out.append(('G', n[1], remove_node(n[2], path[1:])))
                continue
        out.append(n)
    return out


# ------------------------------------------------------------------------------ field level

def find_seg_path(ref, seg, path=()):
    for c in st.children_of(ref):
        if len(c) != 4:
            continue
        if c[3] == 'SEG' and c[0] == seg and c[1] is not None:
            return path + (seg,)
        if c[3] == 'GRP' and c[1] is not None:
            r = find_seg_path(c[1], seg, path + (c[0],))
            if r:
                return r
    return None


_HOSTS = {}


def host(v, seg):
    if v not in _HOSTS:
        _HOSTS[v] = {}
        for name in tables.concrete_message_names(v):
            info = st.structure_info(v, name)
            if info['anomalies']:
                continue
            for s, n in info['occ'].items():
                if n == 1 and s not in _HOSTS[v]:
                    _HOSTS[v][s] = name
    return _HOSTS[v].get(seg)


def component_level(v, seg, name, ref, spath, res, point):
    """edits *inside* a field whose datatype the profile keeps: a leaf component's datatype swapped, a component made
    required.  The standard structure of the same field is instantiated first (what an earlier use leaves behind must
    not reach the profile run)."""
    from hl7apy.core import Message
    from hl7apy.parser import parse_message

    def nav(m):
        e = m
        for p in spath:
            e = getattr(e, p.lower())
        return e
    done = 0
    for idx, fr in tables.field_rows(v, seg):
        if fr.kind == 'leaf' or not fr.ok:
            continue
        cands = [c for c in fr.children if c.kind == 'leaf' and c.datatype in ('ST', 'ID', 'IS', 'NM', 'SI') and c.card[1] != 0]
        if not cands:
            continue
        cr = cands[0]
        new_dt = 'NM' if cr.datatype != 'NM' else 'ST'
        done += 1
        if done > 3:
            break

        def swap(c, new_dt=new_dt):
            r = list(c[1])
            r[2] = new_dt
            return (c[0], tuple(r), c[2], c[3])

        def require(c):
            return (c[0], c[1], (1, c[2][1] if c[2][1] != 0 else 1), c[3])
        pt = dict(point, field=fr.name, component=cr.name)
        res.enumerated += 1
        res.states += 1
        res.nontrivial += 1
        try:
            # the standard structure first
            std0 = Message(name, version=v)
            getattr(getattr(nav(std0), fr.name.lower()), cr.name.lower()).datatype
            setattr(getattr(nav(std0), fr.name.lower()), cr.name.lower(), '12')
            std0.msh.msh_9 = msh9_text(v, name)
            text = std0.to_er7()
            eprof = {name: edit_path(ref, spath + (fr.name, cr.name), swap)}
            obs = {}
            m = Message(name, version=v, reference=eprof)
            obs['traversal-read'] = getattr(getattr(nav(m), fr.name.lower()), cr.name.lower()).datatype
            setattr(getattr(nav(m), fr.name.lower()), cr.name.lower(), '12')
            obs['traversal-write'] = getattr(getattr(nav(m), fr.name.lower()), cr.name.lower())[0].datatype
            m = Message(name, version=v, reference=eprof)
            par = m
            for g in spath[:-1]:
                par = par.add_group(g)
            obs['add-helpers'] = par.add_segment(seg).add_field(fr.name).add_component(cr.name).datatype
            pm = parse_message(text, message_profile=eprof, validation_level=TOLERANT)
            obs['parse'] = getattr(getattr(nav(pm), fr.name.lower()), cr.name.lower())[0].datatype
            obs['standard'] = getattr(getattr(nav(std0), fr.name.lower()), cr.name.lower())[0].datatype
            # a component made required by the profile: validation of a field without it
            rprof = {name: edit_path(ref, spath + (fr.name, cr.name), require)}
            others = [c for c in fr.children if c.name != cr.name and c.kind == 'leaf' and c.card[1] != 0]
            need = None
            if cr.card[0] == 0 and others:
                rm = Message(name, version=v, reference=rprof)
                setattr(getattr(nav(rm), fr.name.lower()), others[0].name.lower(), 'x')
                sm = Message(name, version=v)
                setattr(getattr(nav(sm), fr.name.lower()), others[0].name.lower(), 'x')
                marker = 'Missing required child %s.%s' % (fr.name, cr.name)
                need = (any(marker in t for t in errs(rm)), any(marker in t for t in errs(sm)))
        except Exception as e:
            res.violation('component-edit-raises|%s|%s|%s' % (v, seg, exc_class(e)), 'component-level edit of %s.%s in %s (v%s): %s: %s' % (fr.name, cr.name, name, v, exc_class(e), e), pt, 3)
            continue
        res.evaluations += 8
        res.transitions += 16
        res.validated += 7
        for how in ('traversal-read', 'traversal-write', 'add-helpers', 'parse'):
            if obs[how] != new_dt:
                res.violation('profile-ignored|component-datatype|%s|v%s' % (how, v), '%s.%s of %s (v%s, host %s): created through %s has datatype %s, the profile says %s'
                              % (fr.name, cr.name, seg, v, name, how, obs[how], new_dt), pt, 3)
            else:
                res.classes['component-datatype-from-profile:' + how] += 1
        if obs['standard'] != cr.datatype:
            res.violation('standard-affected|component-datatype|%s' % v, 'standard run shows %s for %s' % (obs['standard'], cr.name), pt, 3)
        if need is not None:
            if need != (True, False):
                res.violation('profile-ignored|component-required|v%s' % v, '%s.%s made required by the profile (v%s, %s): reported by profile run %s, by standard run %s'
                              % (fr.name, cr.name, v, name, need[0], need[1]), pt, 3)
            else:
                res.classes['component-required-from-profile'] += 1


def subcomponent_level(v, seg, name, ref, spath, res, point):
    """edits below a component of complex datatype: a leaf subcomponent's datatype swapped in the profile; observed on
    the subcomponent created by traversal, by the add_* helpers and by the parser (TOLERANT and STRICT)"""
    from hl7apy.core import Message
    from hl7apy.parser import parse_message

    def nav(m):
        e = m
        for p in spath:
            e = getattr(e, p.lower())
        return e
    done = 0
    for idx, fr in tables.field_rows(v, seg):
        if fr.kind == 'leaf' or not fr.ok:
            continue
        hit = None
        for cr in fr.children:
            if cr.kind != 'leaf' and cr.card[1] != 0:
                subs = [x for x in cr.children if x.kind == 'leaf' and x.datatype in ('ST', 'ID', 'IS', 'NM', 'SI') and x.card[1] != 0]
                if subs:
                    hit = (cr, subs[0])
                    break
        if not hit:
            continue
        cr, sr = hit
        new_dt = 'NM' if sr.datatype != 'NM' else 'ST'
        done += 1
        if done > 2:
            break

        def swap(c, new_dt=new_dt):
            r = list(c[1])
            r[2] = new_dt
            return (c[0], tuple(r), c[2], c[3])
        pt = dict(point, field=fr.name, component=cr.name, subcomponent=sr.name)
        res.enumerated += 1
        res.states += 1
        res.nontrivial += 1

        def leaf(m):
            return getattr(getattr(getattr(nav(m), fr.name.lower()), cr.name.lower()), sr.name.lower())
        try:
            std0 = Message(name, version=v)
            setattr(getattr(getattr(nav(std0), fr.name.lower()), cr.name.lower()), sr.name.lower(), '12')
            std0.msh.msh_9 = msh9_text(v, name)
            text = std0.to_er7()
            eprof = {name: edit_path(ref, spath + (fr.name, cr.name, sr.name), swap)}
            obs = {}
            m = Message(name, version=v, reference=eprof)
            obs['traversal-read'] = leaf(m).datatype
            setattr(getattr(getattr(nav(m), fr.name.lower()), cr.name.lower()), sr.name.lower(), '12')
            obs['traversal-write'] = leaf(m)[0].datatype
            for lvl, tag in ((TOLERANT, 'parse-tolerant'), (STRICT, 'parse-strict')):
                try:
                    pm = parse_message(text, message_profile=eprof, validation_level=lvl)
                    obs[tag] = leaf(pm)[0].datatype
                except Exception as e:
                    if lvl == STRICT and (common.is_lib_exc(e) or isinstance(e, ValueError)):
                        obs[tag] = new_dt          # refused for reasons of its own: nothing to observe
                        res.dims['STRICT parse of the subcomponent host refused'] += 1
                    else:
                        raise
            # the field assigned as text inside a message with the profile
            m = Message(name, version=v, reference=eprof)
            setattr(nav(m), fr.name.lower(), getattr(nav(std0), fr.name.lower())[0].to_er7())
            obs['text-assignment'] = leaf(m)[0].datatype
            obs['standard'] = leaf(std0)[0].datatype
        except Exception as e:
            res.violation('subcomponent-edit-raises|%s|%s|%s' % (v, seg, exc_class(e)), 'subcomponent-level edit of %s.%s.%s in %s (v%s): %s: %s'
                          % (fr.name, cr.name, sr.name, name, v, exc_class(e), e), pt, 3)
            continue
        # the component itself given another complex datatype by the profile: the positional path <field>_<j>_1 names its
        # first subcomponent after the datatype the profile says
        structs = libs()[v].DATATYPES_STRUCTS
        other = [d for d in ('CE', 'HD', 'CWE', 'CX', 'XPN') if d in structs and d != cr.datatype and tables.datatype_rows(v, d) and
                 tables.datatype_rows(v, d)[0].kind == 'leaf']
        if other:
            ndt = other[0]

            def retype(c, ndt=ndt):
                r = list(c[1])
                return (c[0], ('sequence', structs[ndt], ndt) + tuple(r[3:]), c[2], c[3])
            try:
                cprof = {name: edit_path(ref, spath + (fr.name, cr.name), retype)}
                m = Message(name, version=v, reference=cprof)
                fld = getattr(nav(m), fr.name.lower())
                j = tables.comp_index(cr.name)
                setattr(fld, '%s_%d_1' % (fr.name.lower(), j), 'v')
                comp = getattr(getattr(nav(m), fr.name.lower()), cr.name.lower())[0]
                obs['positional-under-retyped-component'] = new_dt if (comp.datatype == ndt and [x.name for x in comp.children] == ['%s_1' % ndt]) \
                    else '%s with children %s' % (comp.datatype, [x.name for x in comp.children])
            except Exception as e:
                obs['positional-under-retyped-component'] = 'raises %s: %s' % (exc_class(e), e)
        else:
            obs['positional-under-retyped-component'] = new_dt
        res.evaluations += 7
        res.transitions += 14
        res.validated += 6
        for how in ('traversal-read', 'traversal-write', 'parse-tolerant', 'parse-strict', 'text-assignment', 'positional-under-retyped-component'):
            if obs[how] != new_dt:
                res.violation('profile-ignored|subcomponent-datatype|%s|v%s' % (how, v), '%s.%s.%s of %s (v%s, host %s): created through %s has datatype %s, the profile says %s'
                              % (fr.name, cr.name, sr.name, seg, v, name, how, obs[how], new_dt), pt, 3)
            else:
                res.classes['subcomponent-datatype-from-profile:' + how] += 1
        if obs['standard'] != sr.datatype:
            res.violation('standard-affected|subcomponent-datatype|%s' % v, 'standard run shows %s for %s' % (obs['standard'], sr.name), pt, 3)


def msh9_text(v, name):
    parts = (name.split('_') + ['A01', ''])[:2]
    n = len(dict(tables.field_rows(v, 'MSH'))[9].children)
    # a structure id without underscore (ACK) cannot be derived from type^event: spell it out as third component
    return '%s^%s^%s' % (parts[0], parts[1], name) if n >= 3 or '_' not in name else '%s^%s' % (parts[0], parts[1])


def field_unit(v, seg, res):
    from hl7apy.core import Message
    from hl7apy.parser import parse_message
    if tables.segment_anomaly(v, seg) or tables.row_anomalies(v, seg) or seg == 'MSH':
        res.blocked['segment with anomalous rows / MSH'] += 1
        return
    name = host(v, seg)
    if not name:
        res.dims['segments without host structure'] += 1
        return
    ref = tables.msg_ref(v, name)
    spath = find_seg_path(ref, seg)
    point = {'kind': 'field', 'v': v, 'seg': seg}
    ec = refmodel.default_ec(v)
    for idx, fr in tables.field_rows(v, seg):
        if fr.kind != 'leaf' or fr.datatype not in ('ST', 'NM', 'ID', 'IS', 'SI'):
            continue
        new_dt = 'NM' if fr.datatype != 'NM' else 'ST'

        def swap(c, new_dt=new_dt):
            r = list(c[1])
            r[2] = new_dt
            return (c[0], tuple(r), c[2], c[3])
        eprof = {name: edit_path(ref, spath + (fr.name,), swap)}
        pt = dict(point, field=fr.name)

        def nav(m):
            e = m
            for p in spath:
                e = getattr(e, p.lower())
            return e
        observed = {}
        res.enumerated += 1
        res.states += 1
        res.nontrivial += 1
        try:
            # (a) traversal read + write
            m = Message(name, version=v, reference=eprof)
            observed['traversal-read'] = getattr(nav(m), fr.name.lower()).datatype
            setattr(nav(m), fr.name.lower(), '12')
            observed['traversal-write'] = getattr(nav(m), fr.name.lower())[0].datatype
            # (b) add_* helpers
            m = Message(name, version=v, reference=eprof)
            par = m
            for g in spath[:-1]:
                par = par.add_group(g)
            observed['add-helpers'] = par.add_segment(seg).add_field(fr.name).datatype
            # (c) parse with the profile
            std = Message(name, version=v)
            std.msh.msh_9 = msh9_text(v, name)
            setattr(nav(std), fr.name.lower(), '12')
            text = std.to_er7()
            pm = parse_message(text, message_profile=eprof, validation_level=TOLERANT)
            observed['parse'] = getattr(nav(pm), fr.name.lower())[0].datatype
            # (d) assignment of text
            m = Message(name, version=v, reference=eprof)
            par = m
            for g in spath[:-1]:
                par = par.add_group(g)
            setattr(par, seg.lower(), refmodel.enc_segment(seg, {idx: ['12']}, ec))
            observed['text-assignment'] = getattr(getattr(par, seg.lower()), fr.name.lower())[0].datatype
            # (e) the whole message assigned as text
            m = Message(name, version=v, reference=eprof)
            m.value = text
            observed['message-value'] = getattr(nav(m), fr.name.lower())[0].datatype
            # (f) assignment of an element that belongs to a message built without the profile (it is copied)
            m = Message(name, version=v, reference=eprof)
            par = m
            for g in spath[:-1]:
                par = par.add_group(g)
            setattr(par, seg.lower(), nav(std))
            observed['element-copy-segment'] = getattr(getattr(par, seg.lower()), fr.name.lower())[0].datatype
            m = Message(name, version=v, reference=eprof)
            setattr(nav(m), fr.name.lower(), getattr(nav(std), fr.name.lower())[0])
            observed['element-copy-field'] = getattr(nav(m), fr.name.lower())[0].datatype
            # (g) a stand-alone segment (built on the standard tables) added to the message with the profile: validation of
            # the message judges it by the profile at every depth
            from hl7apy.core import Segment
            m = Message(name, version=v, reference=eprof)
            par = m
            for g in spath[:-1]:
                par = par.add_group(g)
            alone = Segment(seg, version=v)
            setattr(alone, fr.name.lower(), '12')
            par.add(alone)
            want_err = 'Datatype %s is not correct for %s.%s ' % (fr.datatype, seg, fr.name)
            observed['standalone-validated'] = new_dt if any(want_err in t for t in errs(m)) else 'not reported: %r' % [t for t in errs(m) if fr.name in t][:2]
            # standard run keeps the standard datatype
            observed['standard'] = getattr(nav(std), fr.name.lower())[0].datatype
        except Exception as e:
            res.violation('field-edit-raises|%s|%s|%s' % (v, seg, exc_class(e)), 'datatype swap of %s in %s (v%s): %s: %s (observed so far %r)' % (fr.name, name, v, exc_class(e), e, observed), pt, 3)
            continue
        res.evaluations += 8
        res.transitions += 16
        res.validated += 7
        for how in ('traversal-read', 'traversal-write', 'add-helpers', 'parse', 'text-assignment', 'message-value', 'element-copy-segment', 'element-copy-field',
                    'standalone-validated'):
            if observed[how] != new_dt:
                res.violation('profile-ignored|datatype|%s|%s' % (how, 'v' + v), '%s of %s (v%s, host %s): created through %s has datatype %s, the profile says %s'
                              % (fr.name, seg, v, name, how, observed[how], new_dt), pt, 3)
            else:
                res.classes['datatype-from-profile:' + how] += 1
        if observed['standard'] != fr.datatype:
            res.violation('standard-affected|datatype|%s' % v, 'standard run of %s shows datatype %s' % (fr.name, observed['standard']), pt, 3)
        # STRICT: a value valid for the standard datatype only is refused when the profile swaps it to NM
        if new_dt == 'NM':
            res.evaluations += 1
            try:
                std = Message(name, version=v)
                std.msh.msh_9 = msh9_text(v, name)
                setattr(nav(std), fr.name.lower(), 'abc')
                text = std.to_er7()
                try:
                    parse_message(text, message_profile=eprof, validation_level=STRICT)
                    refused = False
                except ValueError:
                    refused = True
                except Exception as e:
                    refused = None
                if refused is False:
                    res.violation('profile-ignored|strict-value|%s' % v, 'STRICT parse with the profile accepts abc in %s swapped to NM' % fr.name, pt, 3)
                elif refused:
                    res.classes['strict-value-follows-profile'] += 1
            except Exception:
                res.dims['strict value path not buildable'] += 1
    component_level(v, seg, name, ref, spath, res, point)
    subcomponent_level(v, seg, name, ref, spath, res, point)
    res.dims['segments (field level)'] += 1


# ------------------------------------------------------------------------------ shipped profiles

def shipped_unit(res):
    import hl7apy
    from hl7apy.core import Message
    from hl7apy.parser import parse_message
    from hl7apy.exceptions import MessageProfileNotFound, LegacyMessageProfile
    base = os.path.join(common.REPO, 'tests', 'profiles')
    mp = hl7apy.load_message_profile(os.path.join(base, 'iti_21'))
    point = {'kind': 'shipped'}
    text = ('MSH|^~\\&|SENDING APP|SENDING FAC|REC APP|REC FAC|20110708162817||RSP^K22^RSP_K21|1|P|2.5|||||ITA||EN\r'
            'MSA|AA|26775702551812240\rQAK|1|OK\rQPD|IHE PDQ Query|111069|@PID.5.2^SMITH~@PID.8^M|||||^^^&1.2&ISO\r'
            'PID|1||10101^^^&1.2&ISO^PI||EVERYMAN^ADAM||19800101|M\r')
    for lvl in (TOLERANT, STRICT):
        res.evaluations += 1
        res.enumerated += 1
        res.states += 1
        res.transitions += 3
        try:
            m = parse_message(text, message_profile=mp, validation_level=lvl)
            dt = m.qpd.qpd_3.datatype
            inf = m.qpd.allow_infinite_children
            r = m.validate(return_errors=True)
        except Exception as e:
            res.violation('shipped|iti21|raises|%s' % exc_class(e), 'parsing with the shipped ITI-21 profile: %s: %s' % (exc_class(e), e), point, 0)
            continue
        res.validated += 1
        std = parse_message(text, validation_level=TOLERANT)
        if dt != 'QIP' or inf or std.qpd.qpd_3.datatype == 'QIP':
            res.violation('shipped|iti21|qpd3', 'QPD_3 datatype %s (standard %s), allow_infinite_children %s' % (dt, std.qpd.qpd_3.datatype, inf), point, 0)
        else:
            res.classes['shipped-profile-followed'] += 1
        # built through the API with the profile: QPD_3 is QIP for traversal and helper
        b = Message('RSP_K21', reference=mp, validation_level=lvl)
        if b.qpd.qpd_3.datatype != 'QIP' or b.add_segment('QPD').add_field('QPD_3').datatype != 'QIP':
            res.violation('shipped|iti21|api', 'Message(reference=profile): QPD_3 not QIP', point, 0)
    for what, fn in (('Message', lambda: Message('ADT_A01', reference=mp)),
                     ('parse_message', lambda: parse_message('MSH|^~\\&|A|B|||20200229||ADT^A01^ADT_A01|1|P|2.5\rPID|1', message_profile=mp))):
        res.evaluations += 1
        res.enumerated += 1
        res.states += 1
        try:
            fn()
            res.violation('not-found|%s|accepted' % what, '%s with a profile that lacks the structure is accepted' % what, point, 0)
        except MessageProfileNotFound:
            res.classes['MessageProfileNotFound'] += 1
        except Exception as e:
            res.violation('not-found|%s|%s' % (what, exc_class(e)), '%s with a profile that lacks the structure raises %s' % (what, exc_class(e)), point, 0)
    for f in ('old_pharm_h4', 'old_pharm_h4_win'):
        res.evaluations += 1
        res.enumerated += 1
        res.states += 1
        try:
            legacy = hl7apy.load_message_profile(os.path.join(base, f))
        except Exception as e:
            res.dims['legacy file %s not loadable here (%s)' % (f, exc_class(e))] += 1
            continue
        key = list(legacy)[0] if isinstance(legacy, dict) and legacy else None
        try:
            Message(key, reference=legacy)
            res.violation('legacy|accepted|%s' % f, 'legacy profile %s accepted' % f, point, 0)
        except LegacyMessageProfile:
            res.classes['LegacyMessageProfile'] += 1
        except Exception as e:
            res.violation('legacy|%s|%s' % (f, exc_class(e)), 'legacy profile %s raises %s: %s' % (f, exc_class(e), e), point, 0)


def units(tier):
    us = [('shipped',)]
    for v in VERSIONS:
        names = tables.concrete_message_names(v)
        if tier == 'quick' and v not in ('2.5',):
            names = names[::3]
        for i in range(0, len(names), 3):
            us.append(('msg', v, tuple(names[i:i + 3])))
        if tier != 'quick' or v == '2.5':
            segs = tables.segment_names(v)
            for i in range(0, len(segs), 6):
                us.append(('fld', v, tuple(segs[i:i + 6])))
    return us


def run_unit(unit, tier):
    res = Result()
    if unit[0] == 'shipped':
        shipped_unit(res)
    elif unit[0] == 'msg':
        for n in unit[2]:
            message_unit(unit[1], n, res, tier)
    else:
        for s in unit[2]:
            field_unit(unit[1], s, res)
    res.expected_size = res.enumerated
    return res


def run(tier, seed, extra):
    us = common.rotate(units(tier), seed)
    extra['bounds'] = {'message_level': 'all structures of 2.5, every third of the other versions' if tier == 'quick' else 'all structures',
                       'field_level': 'segments of 2.5' if tier == 'quick' else 'segments of all versions'}
    return common.run_units(run_unit, us, tier)


def replay(point, res):
    if point['kind'] == 'shipped':
        shipped_unit(res)
    elif point['kind'] == 'message':
        message_unit(point['v'], point['name'], res, 'thorough')
    else:
        field_unit(point['v'], point['seg'], res)
