"""C19 — concurrent use gives the same results as sequential use.

Engine E3 (mc/sched.py): real threads under a baton scheduler with a choice point before every
line (thorough: every bytecode instruction in the functions that touch process-wide objects) of
hl7apy code; iterative preemption bounding over complete executions.  Harnesses: every unordered
pair of bodies from a corpus of parse / build / encode / validate / factory calls with a forced
collision (same version: same BASE_DATATYPES map, tables, class attributes), mixed version/level
variants, and 3-thread harnesses for the small bodies.  Oracle: every thread's observation equals
the observation of the same call run alone; a frame-condition audit fingerprints all process-wide
mutable state of the library around every execution.
"""
from __future__ import annotations

import hashlib
import itertools
import pickle
import sys

import hl7apy
import hl7apy.core
from .. import common, sched
from ..common import Result, libs, STRICT, TOLERANT, HarnessError

ID = 'C19'
ENGINE = 'E3 sched'
RULE = ('one case = one complete execution of a 2- or 3-thread harness under one schedule (choice list); distinct by '
        'construction (the explorer never repeats a choice list); non-trivial = the schedule contains at least one preemption')
ASSUMPTIONS = [
    'scheduling points: every line (thorough: every bytecode of the shared-state functions) of hl7apy function code; '
    'stdlib calls, imports and table construction are atomic',
    'at most 3 threads; preemptions up to the stated bound per harness; races inside one bytecode are out of reach',
    'cold import of a version module is left to the interpreter import lock (trusted); libraries are pre-imported',
    'threads work on distinct messages/objects, as the statement says',
]

ADT = ('MSH|^~\\&|A|B|C|D|20200229||ADT^A01^ADT_A01|1|P|%s\rEVN||20200229\rPID|1||I^^^X||L^F\rPV1|1|I')
ACK = 'MSH|^~\\&|A|B|||20200229||ACK^R01^ACK|1|P|%s\rMSA|AA|1'
CUSTOM = 'MSH!$*@%%!A!B!!!20200229!!ACK$R01$ACK!1!P!%s\rMSA!AA!1$x%%y*z'
ORU = 'MSH|^~\\&|A|B|||20200229||ORU^R01^ORU_R01|1|P|%s\rPID|1\rOBR|1\rOBX|1|ST|C||v'
MSHONLY = 'MSH|^~\\&|A|B|||20200229||ACK^R01^ACK|1|P|%s'


SHARED_HL = [(6, 7), (3, 4), (0, 1)]


def report(m):
    r = m.validate(return_errors=True)
    return (r.is_valid, tuple(str(e) for e in r.errors), tuple(str(w) for w in r.warnings))


def corpus():
    """name -> (size class, factory(version, level) -> thunk).  Every thunk builds fresh objects."""
    from hl7apy.factories import datatype_factory
    from hl7apy.core import Message, Segment, Field, Component, SubComponent
    from hl7apy.parser import parse_message, parse_segment, parse_field

    def st_of(v):
        return libs()[v].BASE_DATATYPES['ST']
    c = {}
    c['fac_DT'] = ('S', lambda v, l: lambda: datatype_factory('DT', '20200229', v, l).to_er7())
    c['fac_NM'] = ('S', lambda v, l: lambda: datatype_factory('NM', '12.5', v, l).to_er7())
    c['fac_TM'] = ('S', lambda v, l: lambda: datatype_factory('TM', '123045.12+0100', v, l).to_er7())
    c['fac_ST'] = ('S', lambda v, l: lambda: datatype_factory('ST', 'a|b#c\\L\\d', v, l).to_er7())
    c['fac_bad'] = ('S', lambda v, l: lambda: datatype_factory('NM', 'abc', v, l).to_er7())
    c['st_er7'] = ('S', lambda v, l: lambda: st_of(v)('x\\y|z#w', highlights=((0, 1), (2, 3))).to_er7())
    # highlight ranges given as a list that both threads pass to their own datatype object (the caller owns the list)
    c['st_shared_hl'] = ('X', lambda v, l: lambda: (st_of(v)('abcdefgh', highlights=SHARED_HL).to_er7(), tuple(SHARED_HL)))
    # a structure that lists one child name twice (the second occurrence gets a numbered name) and a number with more
    # significant digits than a default decimal context keeps
    c['dup_names'] = ('X', lambda v, l: lambda: _dup_group(v, l))
    c['fac_NMlong'] = ('X', lambda v, l: lambda: datatype_factory('NM', '3.14159265358979323846264338', v, l).to_er7())
    c['subcomp'] = ('M', lambda v, l: lambda: SubComponent(datatype='ST', value='x', version=v, validation_level=l).to_er7())
    c['component'] = ('M', lambda v, l: lambda: _comp(v, l))
    c['field'] = ('M', lambda v, l: lambda: _field(v, l))
    c['parse_field'] = ('M', lambda v, l: lambda: parse_field('A^B', 'PID_5', version=v, validation_level=l).to_er7())
    c['segment'] = ('M', lambda v, l: lambda: _segment(v, l))
    # fields beyond the table: of a Z segment and of a segment that ends with a field of datatype varies (their references are
    # made up on the fly, not read from the tables); the number depends on the version so that two threads never ask the same
    c['zfield'] = ('M', lambda v, l: lambda: _open_field('ZIN', 3 if v == '2.5' else 7, v, l))
    c['vfield'] = ('M', lambda v, l: lambda: _open_field('QPD', 5 if v == '2.5' else 6, v, l))
    c['parse_segment'] = ('M', lambda v, l: lambda: parse_segment('PID|1', version=v, validation_level=l).to_er7())
    c['message'] = ('L', lambda v, l: lambda: _message(v, l))
    c['parse_message'] = ('L', lambda v, l: lambda: _parse(MSHONLY % v, l))
    c['parse_ack'] = ('L', lambda v, l: lambda: _parse(ACK % v, l))
    c['parse_adt'] = ('L', lambda v, l: lambda: _parse(ADT % v, l))
    c['validate'] = ('L', lambda v, l: lambda: _validate(v, l))
    # a message with its own delimiters, parsed while another thread parses a standard one
    # a Z segment added to a message through the child API (its reference is made up on the fly), another name per version
    c['zseg_add'] = ('X', lambda v, l: lambda: _zseg_add(v, l))
    # both threads set the default version (to different values), one then makes calls that name their version; afterwards
    # calls that name their version are probed (see PROBES): they never depend on what the default is or was
    c['set_default_23'] = ('X', lambda v, l: lambda: hl7apy.set_default_version('2.3'))
    c['explicit_lib'] = ('X', lambda v, l: lambda: (hl7apy.set_default_version(v), hl7apy.load_library(v).__name__, hl7apy.core.is_base_datatype('TN', v),
                                                    hl7apy.core.is_base_datatype('DTM', v))[1:])
    c['parse_oru'] = ('X', lambda v, l: lambda: _parse_tree(ORU % v, l))
    c['parse_custom'] = ('X', lambda v, l: lambda: _parse(CUSTOM % v, l))
    # a long background body: every datatype, base datatype and segment definition of every version but v, asked through
    # the public lookups.  It runs atomically (no scheduling points of its own) at each point of the other thread's body,
    # so that anything the library remembers per (name, version) - and bounds, evicts or empties when "full" - goes through
    # its whole life between two lines of the other thread
    c['sweep'] = ('W', lambda v, l: lambda: _sweep(v, l))
    return c


def _sweep(v, l):
    from hl7apy.factories import datatype_factory
    from hl7apy.core import Field
    h = hashlib.sha1()
    n = 0
    for w in common.VERSIONS:
        if w == v:
            continue
        lib = libs()[w]
        names = sorted(lib.DATATYPES_STRUCTS) + sorted(lib.BASE_DATATYPES)
        for name in names:
            h.update(repr((w, name, hl7apy.core.is_base_datatype(name, w))).encode())
            n += 1
        for name in sorted(lib.BASE_DATATYPES):
            try:
                r = datatype_factory(name, '1', w, l).to_er7()
            except Exception as e:
                r = type(e).__name__
            h.update(repr((w, name, r)).encode())
        for name in sorted(lib.SEGMENTS):
            r = hl7apy.load_reference(name, 'Segment', w)
            h.update(repr((w, name, r[0], len(r[1]))).encode())
            n += 1
        for name in sorted(lib.DATATYPES_STRUCTS)[::7]:
            f = Field(datatype=name, version=w, validation_level=l)
            h.update(repr((w, name, f.datatype, f.to_er7())).encode())
    return n, h.hexdigest()


def _comp(v, l):
    from hl7apy.core import Component
    c = Component('CX_4', version=v, validation_level=l)
    c.value = 'N'
    return c.to_er7(), [s.name for s in c.children]


def _field(v, l):
    from hl7apy.core import Field
    f = Field('PID_1', version=v, validation_level=l)
    f.value = '1'
    return f.to_er7(), [c.name for c in f.children]


def _segment(v, l):
    from hl7apy.core import Segment
    s = Segment('PID', version=v, validation_level=l)
    s.pid_1 = '1'
    return s.to_er7()


def _open_field(seg, i, v, l):
    from hl7apy.core import Segment
    s = Segment(seg, version=v, validation_level=l)
    setattr(s, '%s_%d' % (seg.lower(), i), 'A')
    return s.to_er7(), [f.name for f in s.children]


def _dup_group(v, l):
    from hl7apy.core import Group
    g = Group('NMR_N01_CLOCK_AND_STATS_WITH_NOTES_ALT' if v < '2.7' else 'CSU_C09_STUDY_OBSERVATION', version=v, validation_level=l)
    return list(g.ordered_children), sorted(g.structure_by_name), sorted((k, tuple(v_)) for k, v_ in g.repetitions.items())


def _zseg_add(v, l):
    from hl7apy.core import Group
    g = Group('ADT_A01_INSURANCE', version=v, validation_level=l)
    z = g.add_segment('ZIN' if v == '2.5' else 'ZBE')
    return z.name, [c.name for c in g.children]


def _explicit_probe():
    # calls whose arguments name their version: what a finished execution left behind must not change their answers
    return tuple((hl7apy.load_library(v).__name__, hl7apy.core.is_base_datatype('TN', v), hl7apy.core.is_base_datatype('DTM', v),
                  len(hl7apy.load_reference('PID', 'Segment', v)[1])) for v in ('2.3', '2.5', '2.7'))


PROBES = {('set_default_23', 'explicit_lib'): _explicit_probe}


def _message(v, l):
    from hl7apy.core import Message
    m = Message('ACK', version=v, validation_level=l)
    m.msa.msa_1 = 'AA'
    return m.to_er7()


def _parse(text, l):
    from hl7apy.parser import parse_message
    m = parse_message(text, validation_level=l)
    return m.to_er7(), report(m)


def _parse_tree(text, l):
    from hl7apy.parser import parse_message
    from ..structures import parsed_shape
    m = parse_message(text, validation_level=l)
    return m.to_er7(), parsed_shape(m)


def _validate(v, l):
    from hl7apy.parser import parse_message
    m = parse_message(ACK % v, validation_level=TOLERANT)
    return report(m)


# ------------------------------------------------------------------------- frame-condition audit

_WATCH = None


def _build_watch():
    """Containers whose shallow content is fingerprinted around every execution: the globals dict of every
    non-table hl7apy module (detects rebinding of any module global, the three defaults included), every
    module-level dict/list/set (BASE_DATATYPES, ELEMENTS, SUPPORTED_LIBRARIES, default delimiter dicts ...)
    and every class-level data attribute (child_classes, cls_attrs, child_parser, allowed_formats ...)."""
    dicts, seqs = [], []
    for name, mod in sorted(sys.modules.items()):
        if mod is None or not (name == 'hl7apy' or name.startswith('hl7apy.')):
            continue
        last = name.rsplit('.', 1)[-1]
        if last in ('messages', 'segments', 'fields', 'datatypes', 'groups', 'tables'):
            continue
        g = vars(mod)
        dicts.append(g)
        for k, v in sorted(g.items()):
            if k.startswith('__') or k in ('MESSAGES', 'SEGMENTS', 'FIELDS', 'DATATYPES', 'DATATYPES_STRUCTS', 'GROUPS', 'TABLES'):
                continue
            if isinstance(v, dict):
                dicts.append(v)
            elif isinstance(v, (list, set)):
                seqs.append(v)
            elif isinstance(v, type) and getattr(v, '__module__', '').startswith('hl7apy'):
                for ak, av in sorted(vars(v).items()):
                    if ak.startswith('__'):
                        continue
                    if isinstance(av, dict):
                        dicts.append(av)
                    elif isinstance(av, (list, set)):
                        seqs.append(av)
    return dicts, seqs


def shallow_fingerprint():
    global _WATCH
    if _WATCH is None:
        _WATCH = _build_watch()
    dicts, seqs = _WATCH
    h = 0
    for d in dicts:
        h = hash((h, len(d), tuple(map(str, d)), tuple(map(id, d.values()))))
    for q in seqs:
        h = hash((h, len(q), tuple(map(id, q))))
    return h


def snapshot_shared():
    """shallow copy of every watched container (see _build_watch)"""
    global _WATCH
    if _WATCH is None:
        _WATCH = _build_watch()
    dicts, seqs = _WATCH
    return [dict(d) for d in dicts], [list(q) if isinstance(q, list) else set(q) for q in seqs]


def restore_shared(snap):
    """put every watched container back to its snapshot content, so that each execution starts from the same
    process-wide state (memoisation left behind by one execution must not shorten the next one)"""
    dicts, seqs = _WATCH
    sd, sq = snap
    for d, c in zip(dicts, sd):
        if len(d) != len(c) or any(d.get(k, d) is not v for k, v in c.items()):
            for k in list(d):
                if k not in c:
                    del d[k]
            for k, v in c.items():
                if d.get(k, d) is not v:
                    d[k] = v
    for q, c in zip(seqs, sq):
        if isinstance(q, list):
            if len(q) != len(c) or any(a is not b for a, b in zip(q, c)):
                q[:] = c
        elif q != c:
            q.clear()
            q.update(c)


def deep_digest(versions):
    h = hashlib.sha1()
    for v in versions:
        lib = libs()[v]
        h.update(pickle.dumps((lib.MESSAGES, lib.SEGMENTS, lib.FIELDS, lib.DATATYPES, lib.DATATYPES_STRUCTS, lib.GROUPS,
                               getattr(lib, 'TABLES', None), sorted(lib.BASE_DATATYPES)), protocol=4))
    return h.hexdigest()


# ------------------------------------------------------------------------- harness units

def shared_state_functions():
    import hl7apy
    from hl7apy import factories, core
    fns = [factories.datatype_factory, hl7apy.load_library, hl7apy.load_reference, hl7apy.find_reference,
           hl7apy.get_default_encoding_chars, core.is_base_datatype]
    for v in ('2.5', '2.7'):
        lib = libs()[v]
        fns += [lib.get, lib.find, lib.is_base_datatype, lib.get_base_datatypes]
    return fns


def harnesses(tier):
    """[(names, [(version, level)...], bound, granularity)]; granularity: 'line' (a point before every line of
    library code), 'instr' (line + every bytecode of the shared-state functions), 'shared' (lines of the code
    objects that mention process-wide data by name — used for the large bodies only), 'shared-entry' (one point at
    the entry of every call of such a code object).  An optional fifth element (k, n) shards the exploration."""
    c = corpus()
    S = [n for n in c if c[n][0] == 'S']
    M = [n for n in c if c[n][0] == 'M']
    L = ['message', 'parse_ack', 'validate']
    hs = []
    same2 = [('2.5', STRICT), ('2.5', STRICT)]
    mixed = [('2.5', STRICT), ('2.7', TOLERANT)]
    q = tier == 'quick'
    gran = 'line' if q else 'instr'
    for a, b in itertools.combinations_with_replacement(S, 2):
        if q:
            hs.append(((a, b), same2, 2, 'line'))
        else:
            # thorough: one more preemption at line granularity, and the quick bound again at bytecode granularity inside the
            # functions that touch process-wide data (bound 3 at bytecode granularity is out of reach: points^3)
            if a == b:
                hs.append(((a, b), same2, 3, 'line'))     # the forced collision of a body with itself
            hs.append(((a, b), same2, 2, 'instr'))
    for a, b in itertools.combinations(S, 2):
        hs.append(((a, b), mixed, 2, gran))
    for i, t in enumerate(itertools.combinations(S, 3)):
        hs.append((t, [('2.5', STRICT)] * 3, 1 if (q or i % 3) else 2, 'line'))
    for a in S:
        for b in M:
            hs.append(((a, b), same2, 1, gran))
    for a, b in itertools.combinations_with_replacement(M, 2):
        hs.append(((a, b), same2, 1, gran))
    for a, b in (list(itertools.combinations(M, 2))[::3] if q else itertools.combinations(M, 2)):
        hs.append(((a, b), mixed, 1, gran))
    # class X: bodies that share an object of the caller's; explored with themselves and with one small body
    hs.append((('st_shared_hl', 'st_shared_hl'), same2, 2, gran))
    hs.append((('st_shared_hl', 'st_shared_hl'), mixed, 2, gran))
    hs.append((('st_shared_hl', 'st_er7'), same2, 1, gran))
    hs.append((('dup_names', 'dup_names'), same2, 1, gran))
    hs.append((('zseg_add', 'zseg_add'), mixed, 1, gran))
    hs.append((('set_default_23', 'explicit_lib'), same2, 2, gran))
    hs.append((('set_default_23', 'explicit_lib'), [('2.5', TOLERANT), ('2.3', TOLERANT)], 2, gran))
    for k in range(12):     # one preemption at the entry of every call that touches process-wide data, in 12 shards
        hs.append((('parse_custom', 'parse_oru'), [('2.5', TOLERANT), ('2.5', TOLERANT)], 1, 'shared-entry', (k, 12)))
    hs.append((('dup_names', 'field'), same2, 1, gran))
    hs.append((('dup_names', 'dup_names'), mixed, 1, gran))
    hs.append((('fac_NMlong', 'fac_NMlong'), [('2.5', TOLERANT), ('2.5', TOLERANT)], 0, 'line'))
    hs.append((('fac_NMlong', 'fac_NM'), [('2.5', TOLERANT), ('2.7', TOLERANT)], 1, gran))
    # every small and medium body preempted once, at each of its lines, by the whole sweep of the other versions
    for a in S + M + (['message', 'parse_ack'] if not q else []):
        hs.append(((a, 'sweep'), [('2.5', STRICT), ('2.5', TOLERANT)], 1, 'line|atomic:1'))
    tol2 = [('2.5', TOLERANT), ('2.5', TOLERANT)]
    if q:
        # large bodies: both serial orders (bound 0) in quick; preemptions in thorough
        for a, b in itertools.combinations_with_replacement(L + ['parse_adt', 'parse_message'], 2):
            hs.append(((a, b), tol2, 0, 'line'))
        for b in L:
            hs.append((('fac_DT', b), same2, 0, 'line'))
    else:
        for a in ('fac_DT', 'fac_ST', 'st_er7'):
            for b in L:
                hs.append(((a, b), same2, 1, 'line'))
        for a, b in (('message', 'parse_ack'), ('parse_ack', 'validate'), ('parse_ack', 'parse_ack'), ('message', 'message')):
            hs.append(((a, b), tol2, 1, 'shared'))
        hs.append((('parse_adt', 'parse_message'), [('2.5', STRICT), ('2.7', TOLERANT)], 0, 'line'))
    return hs


REEXPLORE_CAP = 1000


def atomic_of(gran):
    return tuple(int(x[7:]) for x in gran.split('|')[1:] if x.startswith('atomic:'))


def install_gran(gran):
    gran = gran.split('|')[0]
    if gran == 'instr':
        sched.install(instruction_level_for=shared_state_functions())
    elif gran == 'shared':
        sched.install(only=sched.shared_touching_code_objects())
    elif gran == 'shared-entry':
        sched.install(only=sched.shared_touching_code_objects(), entry_only=True)
    else:
        sched.install()


def cold_unit(v, k, res):
    """controlled interleaving of the lazy import of a version library, in a fresh interpreter (mc/coldimport.py)"""
    import json
    import os
    import subprocess
    env = dict(os.environ, PYTHONHASHSEED='0')
    p = subprocess.run([sys.executable, '-m', 'mc.coldimport', v, str(k)], cwd=common.VERIF, capture_output=True, text=True, timeout=300, env=env)
    res.evaluations += 1
    res.states += 1
    res.enumerated += 1
    res.transitions += 3
    point = {'cold': [v, k]}
    try:
        out = json.loads(p.stdout.strip().splitlines()[-1])
    except Exception:
        raise HarnessError('cold import driver failed: %s %s' % (p.stdout[-300:], p.stderr[-300:]))
    res.validated += 1
    if out['point_reached']:
        res.nontrivial += 1
    if out['a'] != out['alone'] or out['b'] != out['alone']:
        who = 'second-thread' if out['b'] != out['alone'] else 'importing-thread'
        res.violation('cold-import|%s|result-differs' % who, 'v%s, first thread suspended while importing submodule %d: threads observed %r / %r, '
                      'alone %r' % (v, k, out['a'], out['b'], out['alone']), point, 0)
    else:
        res.classes['cold-import:%s' % ('second thread waited' if out['b_finished_while_a_paused'] is False else
                                        'second thread finished' if out['b_finished_while_a_paused'] else 'point not reached')] += 1
    res.dims['cold import interleavings'] += 1


def threadlocal_unit(res):
    """the small bodies alone in the importing (main) thread and alone in a new thread, in a fresh interpreter
    (mc/threadlocal.py): a result that depends on per-thread state set up at import differs between the two"""
    import json
    import os
    import subprocess
    env = dict(os.environ, PYTHONHASHSEED='0')
    p = subprocess.run([sys.executable, '-m', 'mc.threadlocal'], cwd=common.VERIF, capture_output=True, text=True, timeout=600, env=env)
    try:
        out = json.loads(p.stdout.strip().splitlines()[-1])
    except Exception:
        raise HarnessError('thread-local driver failed: %s %s' % (p.stdout[-300:], p.stderr[-300:]))
    res.evaluations += out['cases']
    res.states += out['cases']
    res.enumerated += out['cases']
    res.transitions += 2 * out['cases']
    res.validated += out['cases']
    for d in out['diffs']:
        res.violation('%s|depends-on-thread' % d['body'], 'v%s: %s alone in the thread that imported the library gives %r, alone in a new thread %r'
                      % (d['v'], d['body'], d['main'], d['thread']), {'threadlocal': True}, 0)
    res.dims['bodies compared between the importing thread and a new thread'] += out['cases']


def run_unit(unit, tier):
    if unit[0] == 'cold':
        res = Result()
        cold_unit(unit[1], unit[2], res)
        return res
    if unit[0] == 'threadlocal':
        res = Result()
        threadlocal_unit(res)
        return res
    names, cfgs, bound, gran = unit[:4]
    shard = unit[4] if len(unit) > 4 else None
    res = Result()
    c = corpus()
    install_gran(gran)
    makers = [c[n][1](v, l) for n, (v, l) in zip(names, cfgs)]

    def obs(thunk):
        try:
            return ('ok', thunk())
        except BaseException as e:
            return ('raise', type(e).__name__, str(e)[:200])

    # sequential baseline from the initial state, and again after the other bodies ran (non-initial state)
    snap0 = snapshot_shared()
    alone = []
    for m in makers:
        restore_shared(snap0)
        alone.append(obs(m))
    for a in alone:
        if a[0] == 'raise' and (a[1] in ('NameError', 'ImportError', 'ModuleNotFoundError') or a[2].startswith("module 'hl7apy")):
            raise HarnessError('a body of %r fails alone with %s: %s' % (names, a[1], a[2]))
    restore_shared(snap0)
    again = [obs(m) for m in makers]          # one after the other, state left behind by the previous ones included
    restore_shared(snap0)
    hname = '+'.join(names) + '@' + '/'.join('%s,%s' % (v, 'S' if l == STRICT else 'T') for v, l in cfgs)
    pair = '+'.join(sorted(names))
    point = {'names': list(names), 'cfgs': [list(x) for x in cfgs], 'bound': bound, 'gran': gran}
    if alone != again:
        res.violation('%s|sequential-state-dependence' % pair, 'run one after the other in one process the bodies give %r, each '
                      'alone gives %r' % (again, alone), dict(point, choices=None), 0)
    probe = PROBES.get(tuple(names))
    probe_alone = obs(probe) if probe else None
    restore_shared(snap0)
    snap = snapshot_shared()
    fp0 = shallow_fingerprint()
    versions = sorted({v for v, _ in cfgs})
    dd0 = deep_digest(versions)
    outcomes = set()
    stats = {'n': 0, 'pre': 0, 'maxpts': 0, 'wrote': 0}

    def on_exec(choices, results, ex):
        stats['n'] += 1
        npre = sum(1 for (n_alt, run_en, _), ch in zip(ex.points, choices) if run_en and ch != 0)
        if npre:
            stats['pre'] += 1
        stats['maxpts'] = max(stats['maxpts'], len(ex.points))
        got = [tuple(r) if r[0] == 'raise' else ('ok', r[1]) for r in results]
        outcomes.add(repr(got))
        if got != alone:
            bad = [i for i in range(len(got)) if got[i] != alone[i]]
            res.violation('%s|result-differs' % pair,
                          '%s: under schedule %r thread(s) %r observed %r, alone %r' % (hname, compress(choices), bad,
                                                                                       [got[i] for i in bad], [alone[i] for i in bad]),
                          dict(point, choices=list(choices)), len(choices))
        if probe is not None:
            left = obs(probe)
            if left != probe_alone:
                res.violation('%s|state-left-behind' % pair, '%s: after the execution under schedule %r calls that name their version answer %r, '
                              'before it %r' % (hname, compress(choices), left, probe_alone), dict(point, choices=list(choices)), len(choices))
        if shallow_fingerprint() != fp0:
            # a body wrote process-wide state.  Not a violation by itself (a memo would do that): it is recorded, the
            # state is put back so that the next execution starts where this one started, and the harness is explored
            # once more with one more preemption at the lines that mention shared data (below).
            stats['wrote'] += 1
            restore_shared(snap)

    def fresh_bodies():
        restore_shared(snap)
        return [m for m in makers]

    try:
        n, capped = sched.explore(fresh_bodies, bound, on_exec, shard=shard, atomic=atomic_of(gran))
        if stats['wrote'] and bound < 2 and len(names) == 2 and not res.violations and shard is None and not atomic_of(gran):
            install_gran('shared')
            n2, capped2 = sched.explore(fresh_bodies, bound + 1, on_exec, max_executions=REEXPLORE_CAP)
            n += n2
            res.dims['harnesses re-explored at bound+1 because a body writes shared state'] += 1
            if capped2:
                # reported as what it is: the extra pass is a budgeted one, the pass at the registered bound is complete
                res.dims['re-explorations at bound+1 stopped at the cap of %d executions' % REEXPLORE_CAP] += 1
    except HarnessError:
        if not res.violations:
            raise
        n, capped = stats['n'], False
    restore_shared(snap)
    if stats['wrote']:
        res.dims['harnesses whose bodies write process-wide state'] += 1
    if capped:
        raise HarnessError('exploration capped')
    if deep_digest(versions) != dd0:
        res.violation('%s|tables-written' % pair, '%s: the structure tables changed during the exploration' % hname,
                      dict(point, choices=None), 0)
    # determinism of the explorer itself: replay the last schedule twice
    res.evaluations += n
    res.states += n
    res.enumerated += n
    res.transitions += n * len(names)
    res.validated += n
    res.nontrivial += stats['pre']
    res.classes['distinct-outcome-sets:%d' % len(outcomes)] += 1
    res.dims['harness %d threads bound %d %s' % (len(names), bound, gran)] += 1
    res.dims['max points in one execution'] = max(res.dims.get('max points in one execution', 0), stats['maxpts'])
    res.sample({'harness': hname, 'bound': bound, 'executions': n, 'with_preemption': stats['pre'], 'points': stats['maxpts'],
                'alone': repr(alone)[:160]}, cap=6)
    return res


def compress(choices):
    """choice list -> [(index, alt)] of the non-default choices"""
    return [(i, c) for i, c in enumerate(choices) if c != 0]


def run(tier, seed, extra):
    hs = harnesses(tier)
    cold = [('cold', v, k) for v in (('2.5', '2.7', '2.3') if tier == 'quick' else common.VERSIONS) for k in ((0, 2, 5) if tier == 'quick' else range(6))]
    hs = common.rotate(hs + cold + [('threadlocal',)], seed)
    extra['bounds'] = {'threads': '2 (3 for small bodies)',
                       'preemption_bound': {'small x small': 2 if tier == 'quick' else '3 at line granularity (a body with itself), 2 at bytecode granularity (all pairs)', 'x medium': 1,
                                            'large': 0 if tier == 'quick' else 1, '3 threads': 1 if tier == 'quick' else '2 for every third triple, 1 for the others'},
                       'granularity': 'line' if tier == 'quick' else 'line + bytecode in shared-state functions',
                       'harnesses': len(hs)}
    res = common.run_units(run_unit, hs, tier, fresh_process_per_unit=True)
    m = res.dims.pop('max points in one execution', 0)
    res.dims['max points in one execution (sum over units, informational)'] = m
    res.expected_size = res.enumerated
    return res


def replay(point, res):
    if point.get('threadlocal'):
        threadlocal_unit(res)
        return
    if 'cold' in point:
        cold_unit(point['cold'][0], point['cold'][1], res)
        return
    c = corpus()
    install_gran(point.get('gran', 'line'))
    names, cfgs = point['names'], [tuple(x) for x in point['cfgs']]
    if point.get('choices') is None:
        r = run_unit((tuple(names), cfgs, 0, point.get('gran', 'line')), 'quick')
        res.merge(r)
        return
    makers = [c[n][1](v, l) for n, (v, l) in zip(names, cfgs)]

    def obs(thunk):
        try:
            return ('ok', thunk())
        except BaseException as e:
            return ('raise', type(e).__name__, str(e)[:200])
    alone = [obs(m) for m in makers]
    fp0 = shallow_fingerprint()
    # one run: the runner confirms every violation in a fresh process, which is the second, independent run
    r1, ex = sched.run_schedule(lambda: list(makers), point['choices'], atomic=atomic_of(point.get('gran', 'line')))
    got = [tuple(r) if r[0] == 'raise' else ('ok', r[1]) for r in r1]
    pair = '+'.join(sorted(names))
    if got != alone:
        res.violation('%s|result-differs' % pair, 'replayed: %r vs alone %r' % (got, alone), point, 0)
