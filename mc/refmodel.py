"""Reference ER7 encoder / decoder: join and split on the delimiter characters, trim trailing
empties.  Deliberately boring; shares no code with hl7apy."""
from __future__ import annotations

DEFAULT_EC = {'FIELD': '|', 'COMPONENT': '^', 'SUBCOMPONENT': '&', 'REPETITION': '~', 'ESCAPE': '\\',
              'SEGMENT': '\r', 'GROUP': '\r'}
DEFAULT_EC_27 = dict(DEFAULT_EC, TRUNCATION='#')


def default_ec(v):
    return dict(DEFAULT_EC_27 if v >= '2.7' else DEFAULT_EC)


def _trim(xs):
    xs = list(xs)
    while xs and xs[-1] == '':
        xs.pop()
    return xs


def _dense(d):
    """{1-based index: value} -> dense list with '' for absent positions."""
    if not d:
        return []
    n = max(d)
    return [d.get(i, '') for i in range(1, n + 1)]


def enc_component(c, ec):
    """c: str (leaf text) or {k: str}"""
    if isinstance(c, str):
        return c
    return ec['SUBCOMPONENT'].join(_trim(_dense(c)))


def enc_rep(r, ec):
    """r: str (whole field is one leaf) or {j: component}"""
    if isinstance(r, str):
        return r
    return ec['COMPONENT'].join(_trim([enc_component(c, ec) if c != '' else '' for c in _dense(r)]))


def enc_field(reps, ec):
    """reps: list of repetitions"""
    return ec['REPETITION'].join(enc_rep(r, ec) for r in reps)


def enc_segment(name, fields, ec):
    """fields: {i: [rep, ...]} with 1-based HL7 field numbers (for MSH: i>=3; MSH-1/2 come from ec)."""
    dense = _dense({i: enc_field(reps, ec) for i, reps in fields.items()})
    if name == 'MSH':
        head = [name + ec['FIELD'] + msh2(ec)]
        body = dense[2:] if len(dense) > 2 else []
        return ec['FIELD'].join(_trim(head + body))
    return ec['FIELD'].join(_trim([name] + dense))


def msh2(ec):
    s = ec['COMPONENT'] + ec['REPETITION'] + ec['ESCAPE'] + ec['SUBCOMPONENT']
    if 'TRUNCATION' in ec:
        s += ec['TRUNCATION']
    return s


def enc_message(segments, ec):
    """segments: list of (name, fields)"""
    return '\r'.join(enc_segment(n, f, ec) for n, f in segments)


# ---------------------------------------------------------------------------- decoder

def dec_segment(text, ec):
    """-> (name, [field_text...]) with field_text[0] being field 1 (for MSH: MSH-1 is the separator)."""
    if text[:3] == 'MSH':
        fs = text.split(ec['FIELD'])
        return 'MSH', [ec['FIELD']] + fs[1:]
    fs = text.split(ec['FIELD'])
    return fs[0], fs[1:]


def leaves(text, ec):
    """Sequence of non-empty leaf texts of one segment line, in order."""
    name, fields = dec_segment(text, ec)
    out = []
    for n, f in enumerate(fields):
        if name == 'MSH' and n < 2:
            out.append(f)
            continue
        for r in f.split(ec['REPETITION']):
            for c in r.split(ec['COMPONENT']):
                for s in c.split(ec['SUBCOMPONENT']):
                    if s != '':
                        out.append(s)
    return name, out


def seg_lines(text):
    return [l for l in text.split('\r') if l != '']


def seg_names(text):
    return [l[:3] for l in seg_lines(text)]


def count_separators(text, ec):
    return {k: text.count(ec[k]) for k in ('FIELD', 'COMPONENT', 'SUBCOMPONENT', 'REPETITION') if k in ec}
