"""./check <ID> <quick|thorough> | ./check <ID> --replay <file>

Drives one property module (mc/props/cNN.py), classifies violations against
known_findings.json, writes replay files and the evidence file, sets the exit code:
  0  property held on everything explored (known findings are printed, not alarmed)
  1  at least one violation not listed in known_findings.json (VIOLATION line printed)
  2  harness error (nothing it reports is a verdict)
"""
from __future__ import annotations

import importlib
import json
import os
import subprocess
import sys
import time
import traceback

from . import common
from .common import Result, HarnessError

SCHEMA = '/root/.vp/EVIDENCE.schema.json'


def load_findings():
    path = os.path.join(common.VERIF, 'known_findings.json')
    with open(path) as f:
        data = json.load(f)
    known, fixed = {}, {}
    for e in data['findings']:
        if e.get('status') == 'known':
            known[(e['property'], e['key'])] = e
        else:
            fixed[(e['property'], e['key'])] = e
    return known, fixed


def validate_evidence(path):
    """Validate with jsonschema from the tooling venv (not installed in /venv)."""
    code = ("import json,sys,jsonschema;"
            "jsonschema.validate(json.load(open(sys.argv[1])), json.load(open(sys.argv[2])))")
    try:
        p = subprocess.run(['python3-vt', '-c', code, path, SCHEMA], capture_output=True, text=True, timeout=120)
    except FileNotFoundError:
        return None
    if p.returncode != 0:
        raise HarnessError("evidence file does not validate:\n" + p.stderr[-2000:])
    return True


def write_evidence(mod, tier, seed, res, wall, n_new, known_hit, stale, extra):
    pid = mod.ID
    cov = {
        'states': int(res.states),
        'transitions': int(res.transitions),
        'traces_validated_against_impl': int(res.validated),
        'samples': res.samples[:8] or ['(none)'],
        'evaluations': int(res.evaluations),
        'distinct_nontrivial': int(res.nontrivial),
        'rule': getattr(mod, 'RULE', ''),
        'exhaustive': bool(extra.get('exhaustive', True)),
        'enumerated': int(res.enumerated),
        'closed_form_size': int(res.expected_size),
        'bounds': extra.get('bounds', {}),
        'dimensions': dict(sorted(res.dims.items())),
        'outcome_classes': dict(sorted((str(k), v) for k, v in res.classes.items())),
        'distinct_outcome_classes': len(res.classes),
        'unspecified_oracle_cases': dict(sorted((str(k), v) for k, v in res.unspecified.items())),
        'blocked_by_table_anomaly': dict(sorted((str(k), v) for k, v in res.blocked.items())),
        'known_findings_reproduced': sorted(known_hit),
        'known_findings_not_reproduced': sorted(stale),
        'violation_keys_total': len(res.violations),
        'notes': res.notes,
        'hl7apy_file': common.hl7apy.__file__,
        'repo_rev': common.git_describe(),
        'engine': getattr(mod, 'ENGINE', ''),
    }
    for k, v in extra.items():
        if k not in ('bounds', 'exhaustive'):
            cov[k] = v
    ev = {
        'property_id': pid,
        'tier': tier,
        'seed': int(seed),
        'level': 'model_checking',
        'coverage': cov,
        'assumptions': list(getattr(mod, 'ASSUMPTIONS', [])),
        'wall_s': round(wall, 2),
        'violations': int(n_new),
    }
    # the mutation audit redirects evidence so that files written against a modified tree never land in evidence/
    d = os.environ.get('VERIF_EVIDENCE_DIR') or os.path.join(common.VERIF, 'evidence')
    os.makedirs(d, exist_ok=True)
    path = os.path.join(d, pid + '.json')
    tmp = path + '.tmp'
    with open(tmp, 'w') as f:
        json.dump(ev, f, indent=1, sort_keys=True, default=str)
        f.write('\n')
    os.replace(tmp, path)
    validate_evidence(path)
    return path


def write_replay(pid, key, what, point):
    d = os.path.join(common.VERIF, 'replays', pid)
    os.makedirs(d, exist_ok=True)
    body = {'property': pid, 'key': key, 'what': what, 'point': point,
            'defaults': {'version': common.BASE_DEFAULTS[0], 'level': common.BASE_DEFAULTS[1]},
            'how': 'cd /verif && ./check %s --replay <this file>' % pid}
    path = os.path.join(d, common.sha([pid, key]) + '.json')
    with open(path, 'w') as f:
        json.dump(body, f, indent=1, sort_keys=True, default=str)
        f.write('\n')
    return path


def _tuplify(o):
    if isinstance(o, list):
        return tuple(_tuplify(x) for x in o)
    return o


def confirm(mod, items, tier):
    """Re-execute violation points, each in a fresh forked process (a violation may have corrupted process-wide
    state).  A point that does not reproduce alone - its outcome depended on what its unit did before it - is
    confirmed by re-running the whole unit in another fresh process (not the one that just executed the point: a
    memo filled by the lone point would mask the order dependence).  Returns {key: set of violation keys seen}."""
    out = {}
    unit_cache = {}

    def _point(unit, tier_):
        r = Result()
        mod.replay(unit[1], r)
        return r

    def _unit(unit, tier_):
        u = _tuplify(unit[1])
        if u and isinstance(u[0], str) and u[0].startswith('mc.props.'):
            from . import hist          # a unit of the history search: (module, spec id, histories to expand)
            return hist._work(u, tier_)
        return mod.run_unit(u, tier_)

    for key, point in items:
        one = common.run_units(_point, [(key, point)], tier, jobs=1, fresh_process_per_unit=True)
        seen = set(one.violations)
        unit = point.get('_unit') if isinstance(point, dict) else None
        if key not in seen and unit is not None:
            uk = json.dumps(unit, sort_keys=True, default=str)
            if uk not in unit_cache:
                unit_cache[uk] = set(common.run_units(_unit, [('unit', unit)], tier, jobs=1, fresh_process_per_unit=True).violations)
            seen |= unit_cache[uk]
        out[key] = seen
    return out


def do_replay(mod, path):
    with open(path) as f:
        body = json.load(f)
    common.prepare()
    seen = confirm(mod, [(body['key'], body['point'])], os.environ.get('VERIF_TIER', 'quick'))[body['key']]
    keys = sorted(seen)
    print("replay of %s: expected key %s" % (path, body['key']))
    for k in keys:
        print("  reproduced: %s" % k)
    if body['key'] in seen:
        print("VIOLATION property=%s replay=%s" % (mod.ID, path))
        return 1
    print("not reproduced")
    return 0


def main(argv=None):
    argv = list(sys.argv[1:] if argv is None else argv)
    if len(argv) < 2:
        print(__doc__)
        return 2
    pid = argv[0].upper()
    mod = importlib.import_module('mc.props.' + pid.lower())
    if argv[1] == '--replay':
        return do_replay(mod, argv[2])
    tier = argv[1]
    if tier not in ('quick', 'thorough'):
        tier = os.environ.get('VERIF_TIER', 'quick')
    seed = int(os.environ.get('VERIF_SEED', '0') or 0)
    t0 = time.time()
    try:
        common.prepare()
        known, fixed = load_findings()
        extra = {}
        res = mod.run(tier, seed, extra)
        # exhaustiveness self-check
        if res.expected_size and res.enumerated != res.expected_size:
            raise HarnessError("enumerated %d points, closed form says %d" % (res.enumerated, res.expected_size))
        new, known_hit = [], []
        for key in sorted(res.violations):
            what, point, rank, count = res.violations[key]
            if (pid, key) in known:
                known_hit.append(key)
            else:
                new.append((rank, key, what, point, count))
        dump = os.environ.get('VERIF_DUMP')
        if dump:   # developer aid for triage; never used by registered commands
            with open(dump, 'w') as f:
                json.dump({k: {'what': v[0], 'count': v[3], 'known': (pid, k) in known} for k, v in res.violations.items()},
                          f, indent=1, sort_keys=True, default=str)
        # confirm every new violation by re-executing its point (determinism / replayability)
        confirmed = []
        todo = sorted(new, key=lambda t: (t[0], t[1]))[:8]
        # each confirmation runs in a fresh forked process: a violation may have corrupted process-wide state
        replays = confirm(mod, [(key, point) for rank, key, what, point, count in todo], tier) if todo else {}
        for rank, key, what, point, count in todo:
            if key not in replays[key]:
                raise HarnessError("violation %s did not reproduce from its replay point %r (got %r)"
                                   % (key, point, sorted(replays[key])[:5]))
            confirmed.append((key, what, point, count))
        covered = getattr(mod, 'covers_key', lambda k, t: True)
        stale = [k for (p, k) in known if p == pid and k not in res.violations and covered(k, tier)]
        wall = time.time() - t0
        path = write_evidence(mod, tier, seed, res, wall, len(new), known_hit, stale, extra)
        for key in known_hit:
            print("KNOWN-FINDING: property=%s %s %s" % (pid, key, known[(pid, key)].get('what', '')))
        for key in stale:
            print("STALE-FINDING: property=%s %s (listed as known, not reproduced by this tier)" % (pid, key))
        print("%s %s: evaluations=%d states=%d transitions=%d classes=%d known=%d new=%d wall=%.1fs evidence=%s"
              % (pid, tier, res.evaluations, res.states, res.transitions, len(res.classes),
                 len(known_hit), len(new), wall, path))
        if new:
            for key, what, point, count in confirmed:
                rp = write_replay(pid, key, what, point)
                print("  key=%s count=%d :: %s" % (key, count, what))
                print("VIOLATION property=%s replay=%s" % (pid, rp))
            if len(new) > len(confirmed):
                print("  (+%d more violation keys not written out)" % (len(new) - len(confirmed)))
            return 1
        return 0
    except HarnessError as e:
        sys.stderr.write("HARNESS ERROR (%s): %s\n" % (pid, e))
        return 2
    except Exception:
        sys.stderr.write("HARNESS ERROR (%s):\n%s\n" % (pid, traceback.format_exc()))
        return 2


if __name__ == '__main__':
    sys.exit(main())
