"""E3 — stateless exploration of thread schedules over the real library code.

Real threading.Thread objects, one baton: exactly one managed thread runs at any time.  A
sys.monitoring LINE (optionally INSTRUCTION) callback, enabled only on code objects of the hl7apy
package, is the scheduling point: before every library line the running thread asks the explorer
whether to keep running (choice 0, the default) or to hand the baton to another enabled thread (a
preemption).  Exploration is iterative preemption bounding over complete executions
(Musuvathi/Qadeer): run with a prefix of choices, then for every later point whose preemption cost
stays within the bound push prefix+[alt].

Stdlib code, imports and table construction are never instrumented, so they are atomic; no managed
thread is ever paused while it holds a stdlib lock.
"""
from __future__ import annotations

import sys
import threading
import types

from .common import HarnessError

MON = sys.monitoring
TOOL = 4
E = MON.events

_installed = False
_active = None            # the Execution currently running (or None)
_managed = {}             # thread ident -> ThreadRec
_instr_codes = set()


def _walk_code(co, out):
    if co in out:
        return
    out.add(co)
    for c in co.co_consts:
        if isinstance(c, types.CodeType):
            _walk_code(c, out)


def library_code_objects(include_tables=False):
    """All function code objects (and nested ones) of the hl7apy package modules."""
    return set(library_code_map(include_tables))


def library_code_map(include_tables=False):
    """code object -> globals dict of the function it belongs to."""
    out = {}
    for name, mod in list(sys.modules.items()):
        if mod is None or not (name == 'hl7apy' or name.startswith('hl7apy.')):
            continue
        last = name.rsplit('.', 1)[-1]
        if last in ('messages', 'segments', 'fields', 'datatypes', 'groups', 'tables') and not include_tables:
            continue
        for obj in list(vars(mod).values()):
            _collect(obj, name, out)
    return out


def _collect(obj, modname, out, depth=0):
    if isinstance(obj, types.FunctionType):
        if obj.__module__ and obj.__module__.startswith('hl7apy'):
            cos = set()
            _walk_code(obj.__code__, cos)
            for co in cos:
                out.setdefault(co, obj.__globals__)
    elif isinstance(obj, (staticmethod, classmethod)):
        _collect(obj.__func__, modname, out, depth)
    elif isinstance(obj, property):
        for f in (obj.fget, obj.fset, obj.fdel):
            if f is not None:
                _collect(f, modname, out, depth)
    elif isinstance(obj, type) and depth < 2:
        if getattr(obj, '__module__', '').startswith('hl7apy'):
            for v in list(vars(obj).values()):
                _collect(v, modname, out, depth + 1)


def class_data_attribute_names():
    """Names of data attributes defined in the class bodies of hl7apy classes (process-wide objects reachable
    through instances: child_classes, cls_attrs, child_parser, allowed_formats, ...)."""
    names = set()
    for name, mod in list(sys.modules.items()):
        if mod is None or not (name == 'hl7apy' or name.startswith('hl7apy.')):
            continue
        for obj in list(vars(mod).values()):
            if isinstance(obj, type) and getattr(obj, '__module__', '').startswith('hl7apy'):
                for k, v in vars(obj).items():
                    if k.startswith('__') or k.startswith('_abc'):
                        continue
                    if not isinstance(v, (types.FunctionType, staticmethod, classmethod, property, type)):
                        names.add(k)
    return names


def shared_touching_code_objects():
    """Code objects that mention process-wide data by name: a module global that is data (not a function,
    class or module), any global store, or a class-level data attribute.  Determined mechanically from the
    bytecode of the current tree, so a change that introduces new module- or class-level state is picked up."""
    import dis
    names = class_data_attribute_names()
    sel = set()
    for co, glob in library_code_map().items():
        for ins in dis.get_instructions(co):
            op = ins.opname
            if op in ('STORE_GLOBAL', 'DELETE_GLOBAL'):
                sel.add(co)
                break
            if op in ('LOAD_GLOBAL', 'LOAD_NAME'):
                v = glob.get(ins.argval, None)
                if v is not None and not isinstance(v, (types.FunctionType, type, types.ModuleType,
                                                        types.BuiltinFunctionType)) and not callable(v):
                    sel.add(co)
                    break
            elif op in ('LOAD_ATTR', 'STORE_ATTR', 'DELETE_ATTR', 'LOAD_METHOD') and ins.argval in names:
                sel.add(co)
                break
    return sel


def _on_line(code, line):
    ex = _active
    if ex is None:
        return None
    rec = _managed.get(threading.get_ident())
    if rec is None:
        return None
    ex.point(rec, code, line)
    return None


def _on_instruction(code, offset):
    ex = _active
    if ex is None:
        return None
    rec = _managed.get(threading.get_ident())
    if rec is None:
        return None
    ex.point(rec, code, -offset)
    return None


def _on_start(code, offset):
    return _on_line(code, code.co_firstlineno)


def external_point(tag):
    """Scheduling point requested by harness code (fake socket operations) on behalf of the running thread."""
    ex = _active
    if ex is None:
        return
    rec = _managed.get(threading.get_ident())
    if rec is not None:
        ex.point(rec, None, tag)


def install(instruction_level_for=(), extra_functions=(), only=None, entry_only=False):
    """Enable LINE events on all hl7apy function code objects (idempotent); INSTRUCTION events on the
    code objects of the given functions.  only: restrict to these code objects; entry_only: one point per call
    of such a code object (at its entry) instead of one per line."""
    global _installed
    if not _installed:
        if MON.get_tool(TOOL) is None:
            MON.use_tool_id(TOOL, 'verif-sched')
        MON.register_callback(TOOL, E.LINE, _on_line)
        MON.register_callback(TOOL, E.INSTRUCTION, _on_instruction)
        MON.register_callback(TOOL, E.PY_START, _on_start)
        _installed = True
    n = 0
    _instr_codes.clear()
    for co in library_code_objects():
        try:
            MON.set_local_events(TOOL, co, (E.PY_START if entry_only else E.LINE) if (only is None or co in only) else 0)
            n += 1
        except ValueError:
            pass
    for fn in extra_functions:
        cos = set()
        _walk_code(fn.__code__, cos)
        for co in cos:
            MON.set_local_events(TOOL, co, E.LINE)
    for fn in instruction_level_for:
        cos = set()
        _walk_code(fn.__code__, cos)
        for co in cos:
            MON.set_local_events(TOOL, co, E.LINE | E.INSTRUCTION)
            _instr_codes.add(co)
    return n


def uninstall():
    global _installed
    if _installed:
        for co in library_code_objects():
            try:
                MON.set_local_events(TOOL, co, 0)
            except ValueError:
                pass
        MON.register_callback(TOOL, E.LINE, None)
        MON.register_callback(TOOL, E.INSTRUCTION, None)
        MON.register_callback(TOOL, E.PY_START, None)
        MON.free_tool_id(TOOL)
        _instr_codes.clear()
        _installed = False


class ThreadRec(object):
    __slots__ = ('idx', 'sem', 'done', 'result', 'thread', 'body', 'steps')

    def __init__(self, idx, body):
        self.idx = idx
        self.sem = threading.Semaphore(0)
        self.done = False
        self.result = None
        self.thread = None
        self.body = body
        self.steps = 0


class Execution(object):
    """One complete execution of n bodies under a choice prefix."""

    def __init__(self, bodies, prefix, max_points=2_000_000, atomic=()):
        self.recs = [ThreadRec(i, b) for i, b in enumerate(bodies)]
        # threads whose bodies run without scheduling points once they have the baton (a long "background" body: the
        # other threads are still preempted at each of their own points in favour of it)
        self.atomic = frozenset(atomic)
        # prefix: either a dense choice list or a sparse {point index: alternative} of the non-default choices
        if isinstance(prefix, dict):
            self.forced = dict(prefix)
        else:
            self.forced = {i: c for i, c in enumerate(prefix) if c != 0}
        self.last_forced = max(self.forced) if self.forced else -1
        self.choices = []       # the choice taken at each point
        self.points = []        # (n_alternatives, running_still_enabled, thread_idx)
        self.error = None
        self.max_points = max_points
        self.all_done = threading.Event()
        self.where = []         # (thread, code name, line) of each point — kept only when tracing
        self.trace = False

    # -- choice machinery -------------------------------------------------------------------
    def _choose(self, n_alt, running_enabled, who):
        k = len(self.choices)
        c = self.forced.get(k, 0) if k <= self.last_forced else 0
        if c >= n_alt:
            self.error = 'choice %d out of range (%d alternatives) at point %d while replaying prefix' % (c, n_alt, k)
            c = 0
        self.choices.append(c)
        self.points.append((n_alt, running_enabled, who))
        return c

    def point(self, me, code, line):
        if me.idx in self.atomic:
            return
        others = [r for r in self.recs if not r.done and r is not me]
        if not others:
            return
        if len(self.points) >= self.max_points:
            self.error = 'point cap hit'
            return
        me.steps += 1
        if self.trace:
            self.where.append((me.idx, code.co_name if code is not None else 'external', line))
        c = self._choose(1 + len(others), True, me.idx)
        if c != 0:
            target = others[c - 1]
            target.sem.release()
            me.sem.acquire()

    def _finish(self, me):
        me.done = True
        others = [r for r in self.recs if not r.done]
        if not others:
            self.all_done.set()
            return
        if len(others) == 1:
            others[0].sem.release()
            return
        c = self._choose(len(others), False, me.idx)
        others[c].sem.release()

    def _run_thread(self, rec):
        _managed[threading.get_ident()] = rec
        rec.sem.acquire()
        try:
            try:
                rec.result = ('ok', rec.body())
            except BaseException as e:     # noqa
                rec.result = ('raise', type(e).__name__, str(e)[:200])
        finally:
            _managed.pop(threading.get_ident(), None)
            self._finish(rec)

    def run(self):
        global _active
        if _active is not None:
            raise HarnessError('nested execution')
        for rec in self.recs:
            rec.thread = threading.Thread(target=self._run_thread, args=(rec,), daemon=True)
        # initial choice: who starts (not a preemption)
        first = self._choose(len(self.recs), False, -1) if len(self.recs) > 1 else 0
        _active = self
        try:
            for rec in self.recs:
                rec.thread.start()
            self.recs[first].sem.release()
            if not self.all_done.wait(timeout=120):
                self.error = self.error or 'deadlock or timeout: no thread finished within 120 s'
                # let every thread run to completion free of the scheduler so that nothing stays blocked
                _active = None
                for rec in self.recs:
                    rec.sem.release()
                    rec.sem.release()
            for rec in self.recs:
                rec.thread.join(timeout=30)
        finally:
            _active = None
        if self.error:
            raise HarnessError(self.error + ' (forced choices %r)' % (sorted(self.forced.items()),))
        if self.last_forced >= len(self.points):
            raise HarnessError('schedule diverged while replaying: forced choice at point %d but the execution has only %d points'
                               % (self.last_forced, len(self.points)))
        return [r.result for r in self.recs]

    def preemptions_before(self, i):
        return sum(1 for j in range(i) if self.points[j][1] and self.choices[j] != 0)


def explore(make_bodies, bound, on_execution, max_executions=None, shard=None, atomic=()):
    """Iterative preemption bounding.  make_bodies() -> list of zero-argument callables (fresh objects each
    time).  on_execution(choices, results, execution) is called for every complete execution.  A schedule is
    kept as the sparse map of its non-default choices.  shard=(k, n): this worker expands only the subtrees
    whose first preemption sits at a point index congruent to k modulo n; executions without any preemption
    are run by every shard but reported (callback, count) by shard 0 only.  Returns (executions, capped)."""
    stack = [({}, False)]
    n = 0
    capped = False
    while stack:
        forced, has_pre = stack.pop()
        ex = Execution(make_bodies(), forced, atomic=atomic)
        results = ex.run()
        mine = shard is None or has_pre or shard[0] == 0
        if mine:
            n += 1
            if on_execution(ex.choices, results, ex) == 'stop':
                return n, False
        start = ex.last_forced + 1
        pre = sum(1 for j in range(start) if ex.points[j][1] and ex.choices[j] != 0)   # preemptions so far
        for i in range(start, len(ex.points)):
            n_alt, running_enabled, _ = ex.points[i]
            # beyond the forced prefix every choice was the default, so no further preemptions accumulate
            cost = pre + (1 if running_enabled else 0)
            if cost > bound:
                continue
            if shard is not None and not has_pre and running_enabled and i % shard[1] != shard[0]:
                continue
            for alt in range(1, n_alt):
                child = dict(forced)
                child[i] = alt
                stack.append((child, has_pre or running_enabled))
        if max_executions is not None and n >= max_executions and stack:
            capped = True
            break
    return n, capped


def run_schedule(make_bodies, choices, trace=False, atomic=()):
    """Replay one recorded schedule (used for determinism checks and replay files)."""
    ex = Execution(make_bodies(), choices, atomic=atomic)
    ex.trace = trace
    results = ex.run()
    return results, ex
