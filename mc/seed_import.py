"""Developer tool: import one change delivered by a sub-agent (worktree/MUT/patch<i>.diff ...) into
/verif/seeded/<ID>-<i>/ (patch.diff, demo.py, notes.md, meta.json).  usage: python -m mc.seed_import C09 1 [C09,C12]"""
import json, os, shutil, sys
pid, i = sys.argv[1], sys.argv[2]
breaks = sys.argv[3].split(',') if len(sys.argv) > 3 else [pid]
src = '/tmp/wt-c%s/MUT' % pid[1:]
dst = '/verif/seeded/%s-%s' % (pid, i)
os.makedirs(dst, exist_ok=True)
shutil.copy(os.path.join(src, 'patch%s.diff' % i), os.path.join(dst, 'patch.diff'))
shutil.copy(os.path.join(src, 'demo%s.py' % i), os.path.join(dst, 'demo.py'))
if os.path.exists(os.path.join(src, 'notes%s.md' % i)):
    shutil.copy(os.path.join(src, 'notes%s.md' % i), os.path.join(dst, 'notes.md'))
meta = {'id': '%s-%s' % (pid, i), 'property_given_to_author': pid, 'breaks': breaks,
        'author': 'fresh sub-agent given only the text of the property and a scratch worktree',
        'needs_to_manifest': '(see notes.md)', 'ran': 'python -m mc.audit seeded/%s-%s (see audit.json)' % (pid, i)}
json.dump(meta, open(os.path.join(dst, 'meta.json'), 'w'), indent=1)
print(dst)
