"""Environment checks + engine self-tests (fast).  Exit 0 when the machinery can run here."""
import json, os, subprocess, sys


def main():
    assert sys.version_info[:2] >= (3, 12), 'sys.monitoring (3.12+) is required by the scheduler'
    from . import common
    common.prepare()
    print('hl7apy from', common.hl7apy.__file__)
    p = subprocess.run(['python3-vt', '-c', 'import jsonschema'], capture_output=True)
    assert p.returncode == 0, 'python3-vt with jsonschema is needed to validate evidence files'
    json.load(open(os.path.join(common.VERIF, 'known_findings.json')))
    json.load(open(os.path.join(common.VERIF, 'MANIFEST.json')))
    ok = True
    for name in ('selftest_sched', 'selftest_hist'):
        try:
            mod = __import__('mc.' + name, fromlist=['main'])
        except ImportError:
            continue
        r = mod.main()
        ok = ok and (r in (0, None))
    print('selftest', 'ok' if ok else 'FAILED')
    return 0 if ok else 1


if __name__ == '__main__':
    sys.exit(main())
