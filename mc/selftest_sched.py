"""Scheduler self-test: a planted lost update must be found at preemption bound 1 and not at bound 0;
a recorded schedule replays identically; real library bodies run to completion under the baton."""
from . import common, sched

COUNTER = [0]


def _incr():
    v = COUNTER[0]
    v = v + 1
    COUNTER[0] = v
    return v


def main():
    common.prepare()
    sched.install(extra_functions=[_incr])
    try:
        outcomes = {}

        def make():
            COUNTER[0] = 0
            return [_incr, _incr]

        def on(bound):
            seen = set()

            def cb(choices, results, ex):
                seen.add(COUNTER[0])
                outcomes.setdefault(COUNTER[0], list(choices))
            n, capped = sched.explore(make, bound, cb)
            return n, seen
        n0, s0 = on(0)
        n1, s1 = on(1)
        assert s0 == {2}, ('bound 0 must be sequential', s0)
        assert 1 in s1, ('lost update not found at bound 1', s1)
        # replay determinism
        ch = outcomes[1]
        r1, _ = sched.run_schedule(make, ch)
        c1 = COUNTER[0]
        r2, _ = sched.run_schedule(make, ch)
        assert c1 == COUNTER[0] == 1 and r1 == r2
        # real library bodies
        from hl7apy.factories import datatype_factory

        def make2():
            return [lambda: datatype_factory('NM', '1.5', '2.5', 1).to_er7(),
                    lambda: datatype_factory('DT', '20200229', '2.5', 1).to_er7()]
        res = []
        n2, _ = sched.explore(make2, 1, lambda c, r, e: res.append(tuple(map(tuple, r))))
        assert set(res) == {(('ok', '1.5'), ('ok', '20200229'))}, set(res)
        print('selftest_sched: bound0=%d bound1=%d executions; lost update found; library pair %d executions' % (n0, n1, n2))
        return 0
    finally:
        sched.uninstall()


if __name__ == '__main__':
    raise SystemExit(main())
