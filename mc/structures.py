"""Instance generator for message structures: derivation trees read off the per-version
MESSAGES / GROUPS tables (never from the code under test).

A tree node is ('S', name) for a segment or ('G', name, [children]) for one group repetition.
Normalisations (fixed after probing the tables, see DESIGN 4.1): groups that derive no segment
are dropped; the pseudo-segment ANYHL7SEGMENT and None references are never emitted and make the
structure 'anomalous'; template structures with lower-case letters in the name are not concrete
message types.
"""
from __future__ import annotations

from functools import lru_cache

from . import tables
from .common import libs


def children_of(ref):
    return ref[1] if ref and len(ref) > 1 and ref[1] else ()


@lru_cache(maxsize=None)
def structure_info(v, name):
    """-> dict(anomalies=[...], occurrences={segname: count}, depth=int, names in order)"""
    ref = tables.msg_ref(v, name)
    occ = {}
    anomalies = []
    maxdepth = [0]

    def walk(r, d):
        maxdepth[0] = max(maxdepth[0], d)
        for c in children_of(r):
            try:
                cname, cref, card, cls = c
            except Exception:
                anomalies.append('row-arity')
                continue
            if cls == 'SEG':
                if cname == 'ANYHL7SEGMENT':
                    anomalies.append('ANYHL7SEGMENT')
                    continue
                if cref is None:
                    anomalies.append('segment-ref-None:%s' % cname)
                elif tables.segment_anomaly(v, cname) if cname in libs()[v].SEGMENTS else False:
                    anomalies.append('uninstantiable-segment:%s' % cname)
                occ[cname] = occ.get(cname, 0) + 1
            else:
                if cref is None:
                    anomalies.append('group-ref-None:%s' % cname)
                    continue
                walk(cref, d + 1)
    walk(ref, 0)
    return {'anomalies': anomalies, 'occ': occ, 'depth': maxdepth[0]}


def unambiguous(v, name):
    return all(n == 1 for n in structure_info(v, name)['occ'].values())


def gen(ref, mode, depth=0, opt=None, path=(), keep_empty=False):
    """children list for the sequence `ref` under the given mode.
    mode: 'required' | 'all' | 'rep2' | ('opt', path_of_optional_child)"""
    out = []
    for c in children_of(ref):
        try:
            cname, cref, (mn, mx), cls = c
        except Exception:
            continue
        here = path + (cname,)
        if cls == 'SEG':
            if cname == 'ANYHL7SEGMENT' or cref is None:
                continue
            n = 0
            if mode == 'required':
                n = 1 if mn >= 1 else 0
            elif mode == 'all':
                n = 1
            elif mode == 'rep2':
                n = 1
            elif isinstance(mode, tuple):
                n = 1 if (mn >= 1 or here == mode[1] or (len(mode[1]) > len(here) and mode[1][:len(here)] == here)) else 0
            out.extend([('S', cname)] * n)
        else:
            if cref is None:
                continue
            n = 0
            if mode == 'required':
                n = 1 if mn >= 1 else 0
            elif mode == 'all':
                n = 1
            elif mode == 'rep2':
                n = 2 if (mx == -1 or mx > 1) and depth < 3 else 1
            elif isinstance(mode, tuple):
                n = 1 if (mn >= 1 or here == mode[1] or (len(mode[1]) > len(here) and mode[1][:len(here)] == here)) else 0
            for _ in range(n):
                sub_mode = mode
                if isinstance(mode, tuple) and here == mode[1]:
                    sub_mode = 'required'
                kids = gen(cref, sub_mode, depth + 1, opt, here, keep_empty)
                if isinstance(mode, tuple) and here == mode[1] and not kids:
                    # an optional group opened alone must contain something: take its first segment
                    kids = first_segment(cref)
                if kids or keep_empty:
                    out.append(('G', cname, kids))
    return out


def first_segment(ref):
    for c in children_of(ref):
        try:
            cname, cref, card, cls = c
        except Exception:
            continue
        if cls == 'SEG' and cname != 'ANYHL7SEGMENT' and cref is not None:
            return [('S', cname)]
        if cls == 'GRP' and cref is not None:
            k = first_segment(cref)
            if k:
                return [('G', cname, k)]
    return []


def optional_paths(ref, path=(), depth=0):
    out = []
    for c in children_of(ref):
        try:
            cname, cref, (mn, mx), cls = c
        except Exception:
            continue
        here = path + (cname,)
        if cname == 'ANYHL7SEGMENT' or cref is None:
            continue
        if mn == 0:
            out.append(here)
        if cls == 'GRP' and depth < 2:
            out.extend(optional_paths(cref, here, depth + 1))
    return out


def instances(v, name, kinds=('required', 'all', 'rep2', 'opt'), keep_empty=False):
    """yield (kind label, tree children list) — always starting with MSH if the structure lists it"""
    ref = tables.msg_ref(v, name)
    seen = set()
    for k in kinds:
        modes = [(k, k)] if k != 'opt' else [('opt:' + '/'.join(p), ('opt', p)) for p in optional_paths(ref)]
        for label, mode in modes:
            t = gen(ref, mode, keep_empty=keep_empty)
            key = repr(t)
            if key in seen:
                continue
            seen.add(key)
            yield label, t


def flatten(tree):
    out = []
    for n in tree:
        if n[0] == 'S':
            out.append(n[1])
        else:
            out.extend(flatten(n[2]))
    return out


def shape(tree):
    """comparable nested form: ('S', name) / ('G', name, (children...))"""
    return tuple(n if n[0] == 'S' else ('G', n[1], shape(n[2])) for n in tree)


def parsed_shape(e):
    out = []
    for c in e.children:
        if c.classname == 'Segment':
            out.append(('S', c.name))
        else:
            out.append(('G', c.name, parsed_shape(c)))
    return tuple(out)


def parsed_flat(e):
    out = []
    for c in e.children:
        if c.classname == 'Segment':
            out.append(c)
        else:
            out.extend(parsed_flat(c))
    return out


def msh_line(v, name):
    return 'MSH|^~\\&|||||||%s^%s^%s|||%s' % ((name.split('_') + ['', ''])[0], (name.split('_') + ['', ''])[1], name, v)


def declared_children(ref):
    """{child name: (cls, ref, card)} of a sequence"""
    out = {}
    for c in children_of(ref):
        try:
            cname, cref, card, cls = c
            out.setdefault(cname, (cls, cref, card))
        except Exception:
            pass
    return out
