"""Table-driven generators.  They read the per-version structure tables (the *definition*
of positions, datatypes and cardinalities) and never call the code under test."""
from __future__ import annotations

import re
from functools import lru_cache

from .common import libs, VERSIONS

_FIELD_RE = re.compile(r'^([A-Z][A-Z0-9]{2})_(\d+)$')


def segment_names(v):
    return sorted(libs()[v].SEGMENTS)


def base_datatypes(v):
    return libs()[v].BASE_DATATYPES


def is_base(v, dt):
    return dt in libs()[v].BASE_DATATYPES


class Row(object):
    """One child row of a sequence: (name, ref, (min,max), cls)."""
    __slots__ = ('name', 'ref', 'card', 'cls', 'ok', 'why')

    def __init__(self, raw):
        self.ok = True
        self.why = ''
        try:
            self.name, self.ref, self.card, self.cls = raw
        except Exception:
            self.ok = False
            self.why = 'row-arity-%s' % (len(raw) if hasattr(raw, '__len__') else '?')
            self.name = raw[0] if raw else None
            self.ref = raw[1] if len(raw) > 1 else None
            self.card = (0, -1)
            self.cls = None

    @property
    def kind(self):
        return self.ref[0] if self.ref else None

    @property
    def datatype(self):
        try:
            return self.ref[2]
        except Exception:
            return None

    @property
    def long_name(self):
        try:
            return self.ref[3]
        except Exception:
            return None

    @property
    def children(self):
        if self.ref and self.ref[0] in ('sequence', 'choice') and len(self.ref) > 1:
            return [Row(c) for c in self.ref[1]]
        return []


def seg_ref(v, seg):
    return libs()[v].SEGMENTS[seg]


def segment_anomaly(v, seg):
    """Return None if the segment's table row is usable, else a short anomaly tag."""
    ref = libs()[v].SEGMENTS[seg]
    if not isinstance(ref, (tuple, list)) or len(ref) < 2:
        return 'segment-row-without-children'
    if ref[0] not in ('sequence', 'choice'):
        return 'segment-row-kind-%s' % (ref[0],)
    if len(ref[1]) == 0:
        return 'segment-without-fields'
    return None


@lru_cache(maxsize=None)
def field_rows(v, seg):
    """[(declared_index, Row)] in table order.  declared_index is the number in the field's name."""
    out = []
    if seg not in libs()[v].SEGMENTS:   # a Z segment or a name the version does not define: no table rows
        return out
    ref = libs()[v].SEGMENTS[seg]
    if segment_anomaly(v, seg):
        return out
    for raw in ref[1]:
        r = Row(raw)
        m = _FIELD_RE.match(r.name or '')
        idx = int(m.group(2)) if m else None
        out.append((idx, r))
    return out


def numbering_map(v, seg):
    """ordinal position in the table (1-based) -> declared number.  Identity unless the table has gaps."""
    rows = field_rows(v, seg)
    return [(pos + 1, idx) for pos, (idx, r) in enumerate(rows)]


def has_gap(v, seg):
    return any(a != b for a, b in numbering_map(v, seg))


def comp_index(name):
    return int(name.rsplit('_', 1)[1])


def leaf_positions(v, seg):
    """Yield (i, j, k, leaf_datatype, row_path_ok) for every leaf under every field of the segment.
    j,k are None when the level does not exist (base-datatype field / component)."""
    for idx, fr in field_rows(v, seg):
        if idx is None:
            continue
        if fr.kind == 'leaf':
            yield (idx, None, None, fr.datatype, fr)
        else:
            for cr in fr.children:
                j = comp_index(cr.name)
                if cr.kind == 'leaf':
                    yield (idx, j, None, cr.datatype, cr)
                else:
                    for sr in cr.children:
                        k = comp_index(sr.name)
                        yield (idx, j, k, sr.datatype, sr)


def complex_datatypes(v):
    return sorted(libs()[v].DATATYPES_STRUCTS)


def datatype_rows(v, dt):
    """Rows (components) of a complex datatype."""
    struct = libs()[v].DATATYPES_STRUCTS[dt]
    return [Row(c) for c in struct]


def message_names(v):
    return sorted(libs()[v].MESSAGES)


def concrete_message_names(v):
    """Structures that are concrete message types (template names such as QBP_Qnn carry lower-case letters)."""
    return [m for m in message_names(v) if m == m.upper()]


def msg_ref(v, name):
    return libs()[v].MESSAGES[name]


# canonical valid literal per base datatype (C01/C02/C05 leaves)
def literal(dt, v):
    return {
        'DT': '20200229', 'TM': '1230', 'DTM': '20200229123000.1234+0100', 'NM': '12.5', 'SI': '7',
        'TN': '(555)555-1234', 'TS': '20200229',
    }.get(dt, 'x')


def invalid_literal(dt, v):
    return {'DT': '2020023', 'TM': '2', 'DTM': '2020022', 'NM': '1.2.3', 'SI': '7x'}.get(dt)


def counts():
    n_seg = n_f = n_leaf = 0
    for v in VERSIONS:
        for s in segment_names(v):
            n_seg += 1
            n_f += len(field_rows(v, s))
            n_leaf += sum(1 for _ in leaf_positions(v, s))
    return n_seg, n_f, n_leaf


@lru_cache(maxsize=None)
def row_anomalies(v, seg):
    """{field number: tag} for field rows that contradict themselves: a 'leaf' row whose datatype is complex,
    a row of the wrong arity, a sequence row whose component names do not carry its datatype."""
    out = {}
    for idx, fr in field_rows(v, seg):
        if idx is None or not fr.ok:
            out[idx] = fr.why or 'name'
            continue
        dt = fr.datatype
        if fr.kind == 'leaf':
            if dt not in ('varies', None) and not is_base(v, dt):
                out[idx] = 'leaf-row-with-complex-datatype-%s' % dt
        else:
            for cr in fr.children:
                if not cr.ok:
                    out[idx] = 'component-' + cr.why
                    break
                if not (cr.name or '').startswith(str(dt) + '_'):
                    out[idx] = 'component-%s-under-datatype-%s' % (cr.name, dt)
                    break
    return out
