"""What a call returns does not depend on which thread makes it (run in a fresh interpreter, where the main thread is
the one that imported the library): every small body of the C19 corpus is run alone in the main thread and alone in a
new thread; prints one JSON line with the bodies whose two results differ.

usage: python -m mc.threadlocal"""
import json
import sys
import threading


def main():
    from mc import common
    common.prepare()
    from mc.props import c19
    corpus = c19.corpus()
    diffs = []
    n = 0
    for name in sorted(corpus):
        size, maker = corpus[name]
        if size not in ('S', 'X') or name in ('set_default_23', 'explicit_lib', 'parse_custom', 'parse_oru'):
            continue
        for v, lvl in (('2.5', common.STRICT), ('2.5', common.TOLERANT), ('2.7', common.TOLERANT), ('2.3', common.TOLERANT)):
            def obs(thunk):
                try:
                    return ['ok', repr(thunk())]
                except BaseException as e:
                    return ['raise', type(e).__name__]
            here = obs(maker(v, lvl))
            box = []
            t = threading.Thread(target=lambda: box.append(obs(maker(v, lvl))))
            t.start()
            t.join()
            n += 1
            if box[0] != here:
                diffs.append({'body': name, 'v': v, 'level': lvl, 'main': here, 'thread': box[0]})
    print(json.dumps({'cases': n, 'diffs': diffs}))


if __name__ == '__main__':
    sys.exit(main())
