"""Developer tool (never run by a check): add keys from a VERIF_DUMP file to known_findings.json.
usage: python -m mc.triage <ID> <dumpfile> <key-regex> <defect-tag> [what-override]"""
import json, os, re, sys

def main():
    pid, dump, rx, tag = sys.argv[1:5]
    what_override = sys.argv[5] if len(sys.argv) > 5 else None
    here = os.path.dirname(os.path.dirname(os.path.abspath(__file__)))
    p = os.path.join(here, 'known_findings.json')
    d = json.load(open(p))
    have = {(e['property'], e['key']) for e in d['findings']}
    keys = json.load(open(dump))
    n = 0
    for k in sorted(keys):
        if re.search(rx, k) and (pid, k) not in have:
            d['findings'].append({'property': pid, 'key': k, 'status': 'known', 'defect': tag,
                                  'what': (what_override or keys[k]['what'])[:300]})
            n += 1
    with open(p, 'w') as f:
        json.dump(d, f, indent=1)
        f.write('\n')
    print('added', n)

main()
