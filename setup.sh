#!/bin/sh
# Offline setup: nothing to build (pure Python, editable install of /repo in /venv).  Verifies the
# environment the checks rely on and runs the engines' self-tests.
cd "$(dirname "$0")" || exit 2
export PYTHONHASHSEED=0 PYTHONDONTWRITEBYTECODE=1
exec /venv/bin/python -m mc.selftest
